#!/usr/bin/env python3
"""mutation self-test: applies each catalogued change to a scratch worktree of /repo (outside /repo and /verif),
optionally runs the repository suite there, runs the named checks against it and reports which checks fire.

usage: run_mutants.py [--suite] [--tier quick] [name ...]
Nothing here is part of a registered command; evidence and replays of mutant runs go to the scratch directory.
"""
import json
import os
import shutil
import subprocess
import sys
import tempfile
import time

HERE = os.path.dirname(os.path.abspath(__file__))
VERIF = os.path.dirname(HERE)
REPO = "/repo"
CATALOGUE = json.load(open(os.path.join(HERE, "catalogue.json")))


def sh(cmd, **kw):
    return subprocess.run(cmd, shell=True, text=True, capture_output=True, **kw)


def main():
    args = sys.argv[1:]
    suite = "--suite" in args
    tier = "quick"
    if "--tier" in args:
        tier = args[args.index("--tier") + 1]
    names = [a for a in args if not a.startswith("--") and a != tier]
    scratch = tempfile.mkdtemp(prefix="hivemut_", dir=os.environ.get("HIVEMON_MUT_SCRATCH", "/tmp"))
    wt = os.path.join(scratch, "wt")
    out = []
    try:
        r = sh(f"git -C {REPO} worktree add -q --detach {wt} HEAD")
        assert r.returncode == 0, r.stderr
        for m in CATALOGUE:
            if names and m["name"] not in names:
                continue
            sh(f"git -C {wt} checkout -q -- . && git -C {wt} clean -fdq")
            if m.get("revert"):
                r = sh(f"git -C {wt} diff {m['revert']}^ {m['revert']} | git -C {wt} apply -R")
            else:
                r = sh(f"git -C {wt} apply {os.path.join(VERIF, m['patch'])}")
            if r.returncode != 0:
                out.append({"name": m["name"], "error": "patch does not apply: " + r.stderr[-300:]})
                print(out[-1])
                continue
            rec = {"name": m["name"], "expect": m["expect"], "results": {}}
            if suite:
                r = sh(f"cd {wt} && PYTHONPATH={wt} /venv/bin/python -m pytest -q -p no:cacheprovider --timeout=900 2>&1 | tail -1")
                rec["suite"] = r.stdout.strip()
            env = dict(os.environ, HIVEMON_REPO=wt, HIVEMON_EVIDENCE=os.path.join(scratch, "evidence"), HIVEMON_REPLAYS=os.path.join(scratch, "replays"))
            for prop in m["expect"] + m.get("also", []):
                t0 = time.time()
                r = subprocess.run([os.path.join(VERIF, "check"), prop, "--tier", tier], env=env, text=True, capture_output=True, cwd=VERIF)
                viol = [l for l in r.stdout.splitlines() if l.startswith("VIOLATION")]
                mechs = sorted({l.split("mechanism=")[1].split(" ")[0] for l in r.stderr.splitlines() if "mechanism=" in l})
                rec["results"][prop] = {"exit": r.returncode, "violations": len(viol), "mechanisms": mechs[:6], "wall_s": round(time.time() - t0, 1), "tail": r.stdout.strip().splitlines()[-1:] if r.returncode not in (0, 1) else []}
            rec["caught"] = all(rec["results"][p]["exit"] == 1 for p in m["expect"])
            out.append(rec)
            print(json.dumps(rec))
            sys.stdout.flush()
    finally:
        sh(f"git -C {REPO} worktree remove --force {wt}")
        shutil.rmtree(scratch, ignore_errors=True)
    missed = [r["name"] for r in out if not r.get("caught")]
    print(f"SUMMARY: {len(out) - len(missed)}/{len(out)} caught; missed: {missed}")
    json.dump(out, open(os.path.join(HERE, "last_run.json"), "w"), indent=1)


if __name__ == "__main__":
    main()
