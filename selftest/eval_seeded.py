#!/usr/bin/env python3
"""confirms sub-agent mutants by hand-equivalent steps and runs the checks against them.

usage: eval_seeded.py <PROP> [--tier quick|thorough] [--extra C09,C02] [--only A]
reads /tmp/seed/<PROP>/_out/{A,B}.patch, {A,B}_demo.py, notes.md; writes /verif/seeded/<PROP>-<X>/
"""
import json
import os
import shutil
import subprocess
import sys
import tempfile
import time

VERIF = os.path.dirname(os.path.dirname(os.path.abspath(__file__)))
REPO = "/repo"


def sh(cmd, **kw):
    return subprocess.run(cmd, shell=True, text=True, capture_output=True, **kw)


def main():
    prop = sys.argv[1]
    tier = sys.argv[sys.argv.index("--tier") + 1] if "--tier" in sys.argv else "quick"
    extra = sys.argv[sys.argv.index("--extra") + 1].split(",") if "--extra" in sys.argv else []
    only = sys.argv[sys.argv.index("--only") + 1] if "--only" in sys.argv else None
    rnd = int(sys.argv[sys.argv.index("--round") + 1]) if "--round" in sys.argv else 1
    label = {"A": "A", "B": "B"} if rnd == 1 else {"A": "CDEFGHIJKLMNOPQRSTUV"[2 * (rnd - 2)], "B": "CDEFGHIJKLMNOPQRSTUV"[2 * (rnd - 2) + 1]}
    src = os.path.join(os.environ.get("SEED_DIR", "/tmp/seed"), prop, "_out")
    scratch = tempfile.mkdtemp(prefix="hiveseed_", dir="/tmp")
    wt = os.path.join(scratch, "wt")
    try:
        assert sh(f"git -C {REPO} worktree add -q --detach {wt} HEAD").returncode == 0
        for x in ("A", "B"):
            if only and x != only:
                continue
            patch, demo = f"{src}/{x}.patch", f"{src}/{x}_demo.py"
            if not os.path.exists(patch):
                print(prop, x, "no patch")
                continue
            sh(f"git -C {wt} checkout -q -- . && git -C {wt} clean -fdq")
            env = dict(os.environ, PYTHONPATH=wt)
            clean = subprocess.run(["/venv/bin/python", "-W", "ignore", demo], env=env, cwd=wt, capture_output=True, text=True, timeout=900)
            r = sh(f"git -C {wt} apply {patch}")
            if r.returncode != 0:
                print(prop, x, "patch does not apply", r.stderr[-300:])
                continue
            stat = sh(f"git -C {wt} diff --stat | tail -1").stdout.strip()
            suite = sh(f"cd {wt} && PYTHONPATH={wt} /venv/bin/python -m pytest -q -p no:cacheprovider --timeout=900 2>&1 | tail -1").stdout.strip()
            mutd = subprocess.run(["/venv/bin/python", "-W", "ignore", demo], env=env, cwd=wt, capture_output=True, text=True, timeout=900)
            res = {}
            cenv = dict(os.environ, HIVEMON_REPO=wt, HIVEMON_EVIDENCE=os.path.join(scratch, "evidence"), HIVEMON_REPLAYS=os.path.join(scratch, "replays"))
            for p in [prop] + extra:
                t0 = time.time()
                c = subprocess.run([os.path.join(VERIF, "check"), p, "--tier", tier], env=cenv, text=True, capture_output=True, cwd=VERIF)
                mechs = sorted({l.split("mechanism=")[1].split(" ")[0] for l in c.stderr.splitlines() if "mechanism=" in l})
                res[p] = {"exit": c.returncode, "tier": tier, "mechanisms": mechs[:8], "wall_s": round(time.time() - t0, 1)}
            ok = "273 passed" in suite and clean.returncode == 0 and mutd.returncode != 0
            meta = {
                "id": f"{prop}-{label[x]}",
                "property": prop,
                "source": "independent sub-agent that saw only the property text and its own scratch worktree",
                "diffstat": stat,
                "confirmed": {"suite_with_change": suite, "demo_clean_exit": clean.returncode, "demo_with_change_exit": mutd.returncode, "demo_with_change_tail": (mutd.stdout + mutd.stderr).strip().splitlines()[-3:]},
                "valid_seed": ok,
                "checks": res,
                "caught_by": [p for p, r in res.items() if r["exit"] == 1],
            }
            out = os.path.join(VERIF, "seeded", f"{prop}-{label[x]}")
            os.makedirs(out, exist_ok=True)
            shutil.copy(patch, os.path.join(out, "patch.diff"))
            shutil.copy(demo, os.path.join(out, "demo.py"))
            old = {}
            if os.path.exists(os.path.join(out, "meta.json")):
                old = json.load(open(os.path.join(out, "meta.json")))
            for k in ("needs", "what", "history", "round", "strengthened"):
                if k in old:
                    meta[k] = old[k]
            meta.setdefault("history", [])
            meta["history"].append({"at": time.strftime("%Y-%m-%d %H:%M"), "tier": tier, "result": {p: r["exit"] for p, r in res.items()}})
            json.dump(meta, open(os.path.join(out, "meta.json"), "w"), indent=1)
            print(json.dumps({"id": meta["id"], "valid": ok, "suite": suite[:40], "demo": [clean.returncode, mutd.returncode], "checks": {p: (r["exit"], r["mechanisms"][:3]) for p, r in res.items()}}))
        if os.path.exists(f"{src}/notes.md"):
            for x in ("A", "B"):
                out = os.path.join(VERIF, "seeded", f"{prop}-{label[x]}")
                if os.path.isdir(out):
                    shutil.copy(f"{src}/notes.md", os.path.join(out, "notes.md"))
    finally:
        sh(f"git -C {REPO} worktree remove --force {wt}")
        shutil.rmtree(scratch, ignore_errors=True)


main()
