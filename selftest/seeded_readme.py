#!/usr/bin/env python3
"""writes seeded/README.md from the meta.json files."""
import glob
import json
import os

HERE = os.path.dirname(os.path.dirname(os.path.abspath(__file__)))
rows = []
for f in sorted(glob.glob(os.path.join(HERE, "seeded", "*", "meta.json"))):
    m = json.load(open(f))
    hist = m.get("history", [])
    first = hist[0]["result"] if hist else {}
    missed_first = [p for p, e in first.items() if e != 1 and p == m["property"]]
    caught = ", ".join(f"{p} ({', '.join(r['mechanisms'][:2])})" for p, r in m["checks"].items() if r["exit"] == 1) or "**not caught**"
    note = m.get("strengthened", "")
    if missed_first and m["checks"].get(m["property"], {}).get("exit") == 1 and not note:
        note = "missed by the first version of the check; see DESIGN 11.5"
    rows.append((m["id"], m.get("what", ""), m.get("needs", ""), caught, note, "yes" if m.get("valid_seed") else "NO"))
with open(os.path.join(HERE, "seeded", "README.md"), "w") as out:
    out.write("# Independently written property-breaking changes\n\n")
    out.write("Each directory holds `patch.diff` (applies to /repo HEAD with `git apply`), `demo.py` (exits 0 on the unchanged tree, 1 with the change), the author's `notes.md` and `meta.json` (what was run to confirm it and which checks fire). ")
    out.write("The authors were sub-agents that saw only the property text and a scratch worktree. Every change keeps the repository suite at 273 passes.\n\n")
    import subprocess

    stale = [r[0] for r in rows if subprocess.run(["git", "-C", "/repo", "apply", "--check", os.path.join(HERE, "seeded", r[0], "patch.diff")], capture_output=True).returncode != 0]
    if stale:
        out.write("Patches written against an earlier HEAD that later `fix:` commits have since touched, and that therefore no longer apply as they are: " + ", ".join(stale) + " (they were confirmed and evaluated at the HEAD of their round).\n\n")
    out.write("| id | change | needs | caught by (quick tier) | remark | confirmed |\n|---|---|---|---|---|---|\n")
    for r in rows:
        out.write("| " + " | ".join(x.replace("|", "/").replace("\n", " ") for x in r) + " |\n")
print(len(rows), "rows")
