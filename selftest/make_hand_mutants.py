#!/usr/bin/env python3
"""regenerates selftest/hand/*.patch from (file, old, new) edits against a scratch worktree (arg 1)."""
import json
import os
import subprocess
import sys

WT = sys.argv[1]
HERE = os.path.dirname(os.path.abspath(__file__))
P = "nrel/hive/"
M = []


def mut(name, expect, edits, also=()):
    M.append({"name": name, "expect": list(expect), "also": list(also), "edits": edits})


VS = P + "state/vehicle_state/"
mut("H-C02-plug-kept-when-leaving-for-trip", ["C02"], [(VS + "charging_station.py", """        else:
            error, updated_station = station.return_charger(self.charger_id)
            if error:
                response = SimulationStateError(
                    f"failure returning charger during ChargingStation.exit""", """        elif next_state.vehicle_state_type == VehicleStateType.DISPATCH_TRIP:
            # the trip starts right away, nothing to do at the station
            return None, sim
        else:
            error, updated_station = station.return_charger(self.charger_id)
            if error:
                response = SimulationStateError(
                    f"failure returning charger during ChargingStation.exit""")])
mut("H-C02-stall-kept-when-plug-refused", ["C02"], [(VS + "charging_base.py", """                    elif not updated_station:
                        log.warning(
                            f"vehicle {self.vehicle_id} can't checkout {self.charger_id} from {station.id}"
                        )
                        return None, None""", """                    elif not updated_station:
                        log.warning(
                            f"vehicle {self.vehicle_id} can't checkout {self.charger_id} from {station.id}"
                        )
                        # no plug: park at the base instead
                        return simulation_state_ops.modify_base(sim, updated_base)""")], also=["C09"])
mut("H-C03-servicing-exit-accepts-out-of-service", ["C03"], [(VS + "servicing_trip.py", """        if len(self.route) == 0:
            return None, sim
        else:
            return None, None""", """        if len(self.route) == 0:
            return None, sim
        elif next_state.vehicle_state_type == VehicleStateType.OUT_OF_SERVICE:
            # a vehicle can always be taken out of service
            return None, sim
        else:
            return None, None""")])
mut("H-C05-gas-station-not-credited", ["C05"], [(VS + "vehicle_state_ops.py", """        updated_station = station.receive_payment(charging_price)
""", """        updated_station = (
            station.receive_payment(charging_price)
            if charger.energy_type.name == "ELECTRIC"
            else station
        )
""")])
mut("H-C05-dispensed-nominal-amount", ["C05"], [(VS + "vehicle_state_ops.py", """            immutables.Map({charger.energy_type: kwh_transacted})
        )""", """            immutables.Map(
                {
                    charger.energy_type: kwh_transacted
                    if not mechatronics.is_full(charged_vehicle)
                    else charger.rate * sim.sim_timestep_duration_seconds / 3600
                }
            )
        )""")])
mut("H-C06-odometer-planned-distance", ["C06"], [(VS + "vehicle_state_ops.py", """        step_distance_km = traverse_result.traversal_distance_km
""", """        step_distance_km = sum(l.distance_km for l in route[: len(experienced_route)])
""")])
mut("H-C06-time-not-carried-across-links", ["C06"], [(P + "model/roadnetwork/routetraversal.py", """            error, traverse_result = traverse_up_to(
                updated_speed_link, acc_traversal.remaining_time_seconds
            )""", """            error, traverse_result = traverse_up_to(
                updated_speed_link,
                duration_seconds if len(acc_traversal.experienced_route) == 1 else acc_traversal.remaining_time_seconds,
            )""")])
mut("H-C08-search-removed-from-new-cell", ["C08"], [(P + "util/dict_ops.py", """        search_removed = DictOps.remove_from_collection_dict(
            search, old_search_geoid, old_entity.id
        )""", """        search_removed = DictOps.remove_from_collection_dict(
            search, updated_search_geoid, old_entity.id
        )""")])
mut("H-C09-failed-enter-keeps-exit", ["C09"], [(P + "state/entity_state/entity_state_ops.py", """        elif not enter_sim:
            return None, None
        else:
            return None, enter_sim""", """        elif not enter_sim:
            # nothing to enter: stay where the exit left us if the vehicle was only parked
            return (None, exit_sim) if prev_state.__class__.__name__ == "ReserveBase" else (None, None)
        else:
            return None, enter_sim""")], also=["C02"])
mut("H-C10-dispatchbase-membership-skipped", ["C10"], [(VS + "dispatch_base.py", """        elif not base.membership.grant_access_to_membership(vehicle.membership):
            msg = f"vehicle {vehicle.id} and base {base.id} don't share a membership"
            return SimulationStateError(msg), None
""", "")])
mut("H-C12-fleet-pass-ignores-assigned", ["C12"], [(P + "dispatcher/instruction_generator/dispatcher.py", """                not_already_dispatched = not r.dispatched_vehicle
""", """                not_already_dispatched = membership_id is not None or not r.dispatched_vehicle
""")], also=["C17"])
mut("H-C15-flush-once-per-call", ["C15"], [(P + "app/hive_cosim.py", """        rp1 = rp0.u.apply_update(rp0)
        if flush_events:
            rp1.e.reporter.flush(rp1)

        return rp1

    initial = runner_payload
    next_state = ft.reduce(run_step, steps, initial)
""", """        rp1 = rp0.u.apply_update(rp0)
        return rp1

    initial = runner_payload
    next_state = ft.reduce(run_step, steps, initial)
    if flush_events:
        next_state.e.reporter.flush(next_state)
""")])
mut("H-C16-base-stall-updated-in-place", ["C16"], [(P + "model/base.py", """        else:
            return None, replace(self, available_stalls=stalls + 1)
""", """        else:
            object.__setattr__(self, "available_stalls", stalls + 1)  # avoid copying the base
            return None, self
""")])
mut("H-C17-exit-keeps-assignment-for-station-trip", ["C17"], [(VS + "dispatch_trip.py", """        request = sim.requests.get(self.request_id)
        if request is None:
            # request doesn't exist, doesn't need to be updated
            return None, sim
        else:
            updated_request = request.unassign_dispatched_vehicle()""", """        request = sim.requests.get(self.request_id)
        if request is None or next_state.vehicle_state_type == VehicleStateType.DISPATCH_STATION:
            # request doesn't exist, doesn't need to be updated
            return None, sim
        else:
            updated_request = request.unassign_dispatched_vehicle()""")])
mut("H-C18-queue-sorted-by-id", ["C18"], [(P + "state/simulation_state/update/step_simulation_ops.py", """                key=lambda v: (v.vehicle_state.enqueue_time, v.id)
                if isinstance(v.vehicle_state, ChargeQueueing)
                else (0, v.id),""", """                key=lambda v: v.id,""")])
mut("H-C19-no-move-report-on-arrival", ["C19"], [(VS + "vehicle_state_ops.py", """            report = vehicle_move_event(sim, vehicle, updated_vehicle, traverse_result, env)
            env.reporter.file_report(report)
""", """            if remaining_route:
                report = vehicle_move_event(sim, vehicle, updated_vehicle, traverse_result, env)
                env.reporter.file_report(report)
""")])
mut("H-C20-schedule-evaluated-at-end-of-step", ["C20"], [(P + "model/vehicle/schedules/time_range_schedule.py", """        sim_time = datetime.utcfromtimestamp(sim.sim_time).time()
""", """        sim_time = datetime.utcfromtimestamp(
            sim.sim_time + sim.sim_timestep_duration_seconds
        ).time()
""")])
mut("H-C01-filtered-collections-unsorted", ["C01"], [(P + "util/dict_ops.py", """        if filter_function:
            entities = immutables.Map({k: v for k, v in collection.items() if filter_function(v)})
        else:
            entities = collection
        vals = DictOps.iterate_vals(entities, sort_key)
        return vals""", """        if filter_function:
            # no need to build a second Map just to filter
            return tuple(v for v in collection.values() if filter_function(v))
        else:
            entities = collection
        vals = DictOps.iterate_vals(entities, sort_key)
        return vals""")])
mut("H-C14-mean-speed-heuristic", ["C14"], [(P + "model/roadnetwork/osm/osm_roadnetwork.py", """            time: Hours = dist / self.max_straight_line_speed_kmph
""", """            time: Hours = dist / (0.5 * (self.max_straight_line_speed_kmph + self.min_speed_kmph))
""")])
mut("H-C04-gained-books-unclamped", ["C04"], [(P + "model/vehicle/mechatronics/bev.py", """        updated_vehicle = updated_vehicle.tick_energy_gained(
            immutables.Map({EnergyType.ELECTRIC: new_energy_kwh - start_energy_kwh})
        )""", """        updated_vehicle = updated_vehicle.tick_energy_gained(
            immutables.Map({EnergyType.ELECTRIC: charger_energy_kwh - start_energy_kwh})
        )""")], also=["C05"])
mut("H-C11-cancel-strictly-after", ["C11"], [(P + "state/simulation_state/update/cancel_requests.py", """            if sim.sim_time < this_request_cancel_time:""", """            if sim.sim_time <= this_request_cancel_time:""")])
mut("H-C13-skip-last-pair-of-long-paths", ["C13"], [(P + "model/roadnetwork/osm/osm_roadnetwork_ops.py", """        nx_path_adj_pairs = [(nx_path[i], nx_path[i + 1]) for i in range(0, len(nx_path) - 1)]""", """        nx_path_adj_pairs = [
            (nx_path[i], nx_path[i + 1])
            for i in range(0, len(nx_path) - (2 if len(nx_path) > 6 else 1))
        ]""")])


def main():
    out = []
    for m in M:
        subprocess.check_call(["git", "-C", WT, "checkout", "-q", "--", "."])
        ok = True
        for f, old, new in m["edits"]:
            path = os.path.join(WT, f)
            s = open(path).read()
            if True:
                if old not in s:
                    print("!! edit does not match for", m["name"], f)
                    ok = False
                    continue
                s = s.replace(old, new, 1)
            open(path, "w").write(s)
        if not ok:
            continue
        diff = subprocess.check_output(["git", "-C", WT, "diff"], text=True)
        r = subprocess.run(["/venv/bin/python", "-c", "import nrel.hive.app.hive_cosim"], env=dict(os.environ, PYTHONPATH=WT), capture_output=True, text=True, cwd=WT)
        if r.returncode != 0:
            print("!! does not import:", m["name"], r.stderr[-300:])
            continue
        open(os.path.join(HERE, "hand", m["name"] + ".patch"), "w").write(diff)
        out.append({"name": m["name"], "patch": f"selftest/hand/{m['name']}.patch", "expect": m["expect"], "also": m["also"]})
    subprocess.check_call(["git", "-C", WT, "checkout", "-q", "--", "."])
    cat = [c for c in json.load(open(os.path.join(HERE, "catalogue.json"))) if not c["name"].startswith("H-")]
    json.dump(cat + out, open(os.path.join(HERE, "catalogue.json"), "w"), indent=1)
    print("wrote", len(out), "hand mutants")


main()
