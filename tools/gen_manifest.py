#!/usr/bin/env python3
"""writes /verif/MANIFEST.json from the table below (kept in one place so it stays consistent)."""
import json
import os
import sys

HERE = os.path.dirname(os.path.dirname(os.path.abspath(__file__)))

CHECKS = {
    "C01": ("differential execution: same scenario in separate interpreter processes under different PYTHONHASHSEED values and host time zones, alone in a process and after other scenarios in a shared one; per-step state fingerprints + canonical event multisets + summary compared", "3.1, 4 C01", "tie-rich generated scenarios and shipped Denver scenarios; a difference between any two hash seeds / repetitions is a violation, with the first diverging step and entity as witness"),
    "C02": ("trace invariant at every step boundary + bounded systematic exploration: plug/queue/stall counters recomputed from vehicle activities", "4 C02", "held on the executions observed (hostile + built-in control, contention worlds, all 11 activities); says nothing about unreached paths"),
    "C03": ("online per-request ledger driven by add/pickup/cancel/drop-off events at a registered Handler, compared with state, balances and the out-of-energy hook", "4 C03", "held on the request streams observed incl. interrupt attempts on loaded vehicles"),
    "C04": ("per-vehicle energy ledger after every step + pre/post-conditions on every real consume_energy/idle/add_energy call + randomized function-level sweep", "4 C04", "held on the powertrain/charger/step-length combinations observed"),
    "C05": ("double-entry ledger from the charge hook, pickup events and state deltas (energy per type, balances); payments priced at the station's price and at an independent calendar reading of the tariff table; summary totals compared with the ledger", "4 C05", "held on the charging sessions observed (station and base charging, changing tariffs, both energy types)"),
    "C06": ("oracle over move/traverse hook frames: speed bound, odometer = driven distance, junction, driven+remaining = route, journey reconstruction, progress, arrival; state rule: within a journey the stored route is a remainder of the previous step's and is used up only at its end", "4 C06", "held on the journeys observed over straight-line, generated street grids and the Denver graph"),
    "C07": ("location-consistency invariant in every state (stationary activities, route ends, pickup/drop-off places) + bounded systematic exploration", "4 C07", "held on the instructions observed incl. remote targets from every activity"),
    "C08": ("reference model: the eight index maps recomputed from the entity maps after every operation of random add/modify/remove sequences and after every scenario step", "4 C08", "held on the operation sequences observed"),
    "C09": ("atomicity oracle: every captured instruction batch re-applied one by one through the real apply_instructions with deep state fingerprints; precedence oracle from generator/driver wrappers; systematic single-instruction exploration", "4 C09", "held on the (activity, instruction, outcome) triples observed"),
    "C10": ("membership invariant on every activity target in every state + on every proposal of the built-in generators and drivers; systematic exploration with two fleets", "4 C10", "held on the fleet layouts and cross-fleet instructions observed"),
    "C11": ("calendar reference model computed from the generated input files (admission step, cancellation step, tariff in force) compared with events and station prices per step", "4 C11", "held on the (request file, price table, step length, start, timeout) tuples observed"),
    "C12": ("own eligibility model + own optimum (brute force / network simplex) on every Dispatcher invocation, in-run and on directly generated states", "4 C12", "held on the dispatcher invocations observed"),
    "C13": ("post-conditions on route / position_from_geoid over sampled position pairs on generated grids, the Denver graph and the straight-line network, plus every route requested in scenario runs", "4 C13", "held on the position pairs observed"),
    "C14": ("differential against an independent heap Dijkstra over link travel times (length over speed, default speed where missing, best of parallel streets) on generated grids with varied speeds and the Denver graph", "4 C14", "held on the node pairs observed (all Denver pairs in the thorough tier)"),
    "C15": ("differential execution: crank(1) x n vs random compositions crank(a1)...crank(am) (generators re-injected, flushes deferred) vs LocalSimulationRunner.run; per-step fingerprints and event multisets compared; the co-simulation charge table compared between runs; load_scenario + crank vs load_simulation + batch runner for the same generator argument", "4 C15", "held on the scenarios and splits observed"),
    "C16": ("immutability sanitizer: deep fingerprints of all retained states re-checked later; stepping / applying twice from a saved state compared, with an earlier saved state re-stepped and a what-if copy stepped in between, and replays of several steps", "4 C16", "held on the states retained and re-stepped"),
    "C17": ("assignment invariant in every state (recorded vehicle is in DispatchTrip to that request; at most one vehicle per request where only the built-in dispatcher hands out trips) + out-of-energy hook + systematic exploration", "4 C17", "held on the dispatch / interruption / low-energy histories observed"),
    "C18": ("trace oracle per (station, plug): join step observed from the trace, no grant to a later joiner while an earlier one keeps waiting; one and two queues per station, waits from seconds to more than a day", "4 C18", "held on the arrival / departure / abandonment patterns observed"),
    "C19": ("offline checker over the event.log written by the real EventfulHandler (grouped per step by file offset) against state deltas and StatsHandler counters; logs of one-step and several-step co-simulation calls compared; selective log_sim_config, station loads judged against the charge calls of the step", "4 C19", "held on the runs observed through the real file-writing handlers"),
    "C20": ("integer seconds-of-day shift model from the generated schedule file compared with driver availability, shift events and Dispatcher proposals per step, incl. drivers added between co-simulation calls", "4 C20", "held on the shift tables, start times and step lengths observed"),
}

IMPLEMENTED = sys.argv[1].replace(" ", ",").split(",") if len(sys.argv) == 2 else (sys.argv[1:] if len(sys.argv) > 2 else ["C%02d" % i for i in range(1, 21)])

m = {
    "version": 1,
    "setup_cmd": "true",
    "hooks": {
        "guard": "HIVEMON_HOOKS",
        "enable": "no source hooks in /repo: all observation points are harness-side wrappers installed by /verif/hivemon/hooks.py when HIVEMON_HOOKS != 0 (set by ./check); /repo is imported from its working tree via PYTHONPATH",
        "baseline_off_cmd": "cd /repo && /venv/bin/python -m pytest -ra -q -p no:cacheprovider --timeout=900 --continue-on-collection-errors",
        "source_commits": [],
        "add_only": True,
    },
    "engines": [
        {"name": "hivemon", "path": "hivemon/", "serves_properties": sorted(IMPLEMENTED), "kind_free_text": "runtime monitoring: seeded scenario generator + hostile/systematic drivers running the real hive pipeline under harness-side hooks; per-property monitors (invariants, ledgers, reference models, differential executions)"}
    ],
    "checks": [],
    "notes": "See DESIGN.md. Verdicts are three-valued: exit 0 held-on-observed, exit 1 VIOLATION, exit 2 INCONCLUSIVE (coverage floor missed or worker problem). 19 genuine defects were repaired in /repo as fix: commits (known_findings.json 'fixed' records).",
    "not_applicable": [],
}
for pid in sorted(CHECKS):
    tech, ref, note = CHECKS[pid]
    if pid in IMPLEMENTED:
        m["checks"].append(
            {
                "property_id": pid,
                "quick_cmd": f"./check {pid} --tier quick",
                "thorough_cmd": f"./check {pid} --tier thorough",
                "evidence_file": f"evidence/{pid}.json",
                "replay_cmd_template": f"./check {pid} --replay {{path}}",
                "engine": "hivemon",
                "level_claimed": {"category": "exploration", "text": f"runtime monitoring of real executions: {note}. Evidence lists what the monitors observed (events checked, distinct transition classes, hook calls); a run that observed too little is inconclusive.", "design_ref": f"DESIGN.md {ref}"},
                "level_note": "trusted base: the monitors and reference models in /verif/hivemon, CPython, h3/networkx as used by the oracles; the property is decided only on executions the workloads produce",
                "technique": "runtime monitoring: " + tech,
            }
        )
    else:
        m["not_applicable"].append({"property_id": pid, "reason": "check under construction in this round (designed in DESIGN.md, not yet registered)"})
json.dump(m, open(os.path.join(HERE, "MANIFEST.json"), "w"), indent=1)
print("wrote MANIFEST.json with", len(m["checks"]), "checks")
