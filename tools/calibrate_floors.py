#!/usr/bin/env python3
"""reads evidence files of a seed sweep (dirs given as arguments, one per run: <dir>/<PROP>.json) and writes
hivemon/checks/floors.json: for every floor name the minimum is set to 40 % of the smallest value observed (30 % with fewer than four runs, 20 % for counters below 100)
(deterministic set sizes: smallest observed minus 2). usage: calibrate_floors.py quick|thorough dir [dir ...]"""
import glob
import json
import os
import sys

HERE = os.path.dirname(os.path.dirname(os.path.abspath(__file__)))
tier = sys.argv[1]
path = os.path.join(HERE, "hivemon", "checks", "floors.json")
floors = json.load(open(path)) if os.path.exists(path) else {}
seen = {}
for d in sys.argv[2:]:
    for f in glob.glob(os.path.join(d, "C*.json")):
        ev = json.load(open(f))
        if ev["tier"] != tier:
            continue
        for fl in ev["coverage"].get("floors", []):
            seen.setdefault(ev["property_id"], {}).setdefault(fl["name"], []).append(fl["observed"])
for prop, names in sorted(seen.items()):
    for name, vals in sorted(names.items()):
        lo = min(vals)
        # counters: 40 % of the smallest value seen (30 % when fewer than four runs were seen, 20 % for counters below 100,
        # whose relative spread from seed to seed is large)
        factor = 0.4 if len(vals) >= 4 else 0.3
        if lo < 100:
            factor = min(factor, 0.2)
        new = max(1, int(0.7 * lo)) if name.startswith("set:") or name in ("scenarios",) else max(1, int(factor * lo))
        floors.setdefault(prop, {}).setdefault(tier, {})[name] = new
        print(prop, tier, name, "observed", sorted(vals), "->", new)
json.dump(floors, open(path, "w"), indent=1, sort_keys=True)
