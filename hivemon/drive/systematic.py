"""bounded systematic driver: enumerates instruction sequences in tiny worlds through the real crank(1).

It is a workload generator, not a model: every transition is performed by the real code and every reached
state is judged by the same invariant functions the trace monitors use (C02, C07, C10, C17) and every
(state, instruction) pair by C09's single-instruction oracle. Deduplication by fingerprint only prunes the
search; every visited state is checked.
"""
from __future__ import annotations

import collections
import os
import shutil
import tempfile
import time
from pathlib import Path
from typing import Any, Dict, List, Optional, Tuple

from hivemon import hooks
from hivemon.common import quiet_stdout, scratch_base, silence_logging
from hivemon.fingerprint import canon, digest
from hivemon.gen import controllers as C
from hivemon.gen.scenario import write_scenario

DEDUP_SKIP = frozenset({"sim_time", "applied_instructions", "idle_duration", "enqueue_time", "departure_time", "dispatched_vehicle_time", "distance_traveled_km"})

A = (39.7500, -104.9900)  # base b1 / station bs1, vehicles va, vb
B = (39.7520, -104.9900)  # station s1, vehicle vc
Cc = (39.7700, -104.9700)  # remote base b2 / station s2
D = (39.7530, -104.9900)
E = (39.7510, -104.9890)


def _sim():
    return {"dt": 60, "start": 0, "end": 864000, "timeout": 100000, "time_format": "int", "steps": 0}


def world(name: str) -> Dict[str, Any]:
    base = {
        "name": name,
        "sim": _sim(),
        "network": {"type": "euclidean"},
        "prices": None,
        "rate": [2.0, 1.0, 3.0],
        "schedules": None,
        "mechatronics": None,
        "chargers": None,
        "dispatcher": {"max_search_radius_km": 6.0},
        "global": {"lazy": False, "log_events": False},
    }
    if name == "w1":  # two fleets, nearly empty vehicle, base with one stall and a one-plug station
        base.update(
            vehicles=[
                {"id": "va", "lat": A[0], "lon": A[1], "mech": "leaf_50", "soc": 0.5},
                {"id": "vb", "lat": A[0], "lon": A[1], "mech": "leaf_50", "soc": 0.5},
                {"id": "vc", "lat": B[0], "lon": B[1], "mech": "leaf_50", "soc": 0.002},
            ],
            stations=[
                {"id": "bs1", "lat": A[0], "lon": A[1], "plugs": [{"charger": "LEVEL_2", "count": 1}]},
                {"id": "s1", "lat": B[0], "lon": B[1], "plugs": [{"charger": "DCFC", "count": 1}, {"charger": "LEVEL_2", "count": 1}]},
                {"id": "s2", "lat": Cc[0], "lon": Cc[1], "plugs": [{"charger": "DCFC", "count": 1}]},
            ],
            bases=[{"id": "b1", "lat": A[0], "lon": A[1], "station": "bs1", "stalls": 1}, {"id": "b2", "lat": Cc[0], "lon": Cc[1], "station": None, "stalls": 1}],
            requests=[
                {"id": "r1", "o": list(A), "d": list(D), "t": 0, "pax": 1, "fleet": "fa"},
                {"id": "r2", "o": list(B), "d": list(E), "t": 0, "pax": 1, "fleet": "fb"},
            ],
            fleets={"fa": {"vehicles": ["va", "vc"], "stations": ["s1", "bs1"], "bases": ["b1"]}, "fb": {"vehicles": ["vb"], "stations": ["s2"], "bases": ["b2"]}},
        )
    elif name == "w2":  # contention: two stalls, one plug, two vehicles of the fleet at the base; a full one-plug station
        base.update(
            vehicles=[
                {"id": "va", "lat": A[0], "lon": A[1], "mech": "leaf_50", "soc": 0.4},
                {"id": "vb", "lat": A[0], "lon": A[1], "mech": "leaf_50", "soc": 0.4},
                {"id": "vc", "lat": B[0], "lon": B[1], "mech": "leaf_50", "soc": 0.3},
            ],
            stations=[
                {"id": "bs1", "lat": A[0], "lon": A[1], "plugs": [{"charger": "LEVEL_2", "count": 1}]},
                {"id": "s1", "lat": B[0], "lon": B[1], "plugs": [{"charger": "DCFC", "count": 1}]},
            ],
            bases=[{"id": "b1", "lat": A[0], "lon": A[1], "station": "bs1", "stalls": 2}],
            requests=[{"id": "r1", "o": list(A), "d": list(D), "t": 0, "pax": 1, "fleet": "fa"}, {"id": "r2", "o": list(B), "d": list(A), "t": 0, "pax": 1, "fleet": "fa"}],
            fleets={"fa": {"vehicles": ["va", "vb", "vc"], "stations": ["s1", "bs1"], "bases": ["b1"]}, "fb": {"vehicles": [], "stations": [], "bases": []}},
        )
    elif name == "w3":  # no fleets: queueing on one plug, an ICE vehicle and a pump, one-stall base without station
        base.update(
            vehicles=[
                {"id": "va", "lat": B[0], "lon": B[1], "mech": "leaf_50", "soc": 0.3},
                {"id": "vb", "lat": E[0], "lon": E[1], "mech": "leaf_50", "soc": 0.3},
                {"id": "vg", "lat": B[0], "lon": B[1], "mech": "toyota_corolla", "soc": 0.4},
            ],
            stations=[{"id": "s1", "lat": B[0], "lon": B[1], "plugs": [{"charger": "DCFC", "count": 1}, {"charger": "GAS_PUMP", "count": 1}]}],
            bases=[{"id": "b1", "lat": B[0], "lon": B[1], "station": None, "stalls": 1}],
            requests=[{"id": "r1", "o": list(B), "d": list(D), "t": 0, "pax": 1}, {"id": "r2", "o": list(E), "d": list(A), "t": 0, "pax": 2}],
            fleets=None,
        )
    elif name == "w4":  # vehicle in two fleets, vehicle that runs dry, restricted base whose attached station is public
        base.update(
            vehicles=[
                {"id": "va", "lat": A[0], "lon": A[1], "mech": "leaf_50", "soc": 0.5},
                {"id": "vb", "lat": A[0], "lon": A[1], "mech": "leaf_50", "soc": 0.01},
                {"id": "vp", "lat": B[0], "lon": B[1], "mech": "leaf_50", "soc": 0.5},
            ],
            stations=[
                {"id": "bs1", "lat": A[0], "lon": A[1], "plugs": [{"charger": "LEVEL_2", "count": 2}]},
                {"id": "s1", "lat": B[0], "lon": B[1], "plugs": [{"charger": "DCFC", "count": 1}]},
            ],
            bases=[{"id": "b1", "lat": A[0], "lon": A[1], "station": "bs1", "stalls": 1}],
            requests=[{"id": "r1", "o": list(A), "d": list(B), "t": 0, "pax": 1, "fleet": "fb"}, {"id": "r2", "o": list(B), "d": list(A), "t": 0, "pax": 1, "fleet": "fa"}],
            # the base is restricted to fa, its station is open to all: vb (fb only) stands at it and may use neither stall nor base charging
            fleets={"fa": {"vehicles": ["va"], "stations": [], "bases": ["b1"]}, "fb": {"vehicles": ["va", "vb"], "stations": [], "bases": []}},
        )
    else:
        raise ValueError(name)
    return base


WORLDS = ["w1", "w2", "w3", "w4"]


def variants(s, env, plugs: List[str]) -> List[Any]:
    """every instruction variant for every vehicle (plus 'no instruction')."""
    I = C.INSTR
    out: List[Any] = [None]
    sids = list(s.get_station_ids()) + ["nope"]
    bids = list(s.get_base_ids()) + ["nope"]
    rids = ["r1", "r2", "nope"]
    a_link = None
    for sid in s.get_station_ids():
        a_link = s.stations[sid].position.link_id
    for vid in s.get_vehicle_ids():
        out.append(I["Idle"](vid))
        out.append(I["OutOfService"](vid))
        for rid in rids:
            out.append(I["DispatchTrip"](vid, rid))
        for sid in sids:
            for c in plugs:
                out.append(I["DispatchStation"](vid, sid, c))
                out.append(I["ChargeStation"](vid, sid, c))
        for bid in bids:
            out.append(I["DispatchBase"](vid, bid))
            out.append(I["ReserveBase"](vid, bid))
            for c in plugs[:3]:
                out.append(I["ChargeBase"](vid, bid, c))
        if a_link is not None:
            out.append(I["Reposition"](vid, a_link))
    return out


def state_key(s) -> str:
    def rnd(x):
        return x

    c = canon(s, ids=False, skip=DEDUP_SKIP)
    return digest(_round(c))


def _round(c):
    if isinstance(c, tuple):
        return tuple(_round(x) for x in c)
    if isinstance(c, str) and ("." in c or "e" in c):
        try:
            return repr(round(float(c), 5))
        except ValueError:
            return c
    return c


def systematic_cases(prop: str, tier: str, seed: int) -> List[Dict[str, Any]]:
    nsplit = 4
    depth, cap = (3, 2500) if tier == "quick" else (4, 40000)
    cases = []
    for w in WORLDS:
        for j in range(nsplit):
            cases.append({"engine": "systematic", "id": f"{prop}-sys-{w}-{j}", "world": w, "depth": depth, "cap": cap, "split": [j, nsplit], "props": [prop], "primary": prop})
    return cases


def run_systematic(case: Dict[str, Any]) -> Dict[str, Any]:
    import nrel.hive.app.hive_cosim as hc
    from nrel.hive.runner.runner_payload_ops import set_instruction_generators

    from hivemon.monitors.instructions import check_single, instr_kind
    from hivemon.monitors.invariants import check_c02, check_c07, check_c10, check_c17
    from hivemon.monitors.base import aname

    silence_logging()
    hooks.import_hive()
    real_apply = hooks.real_apply_instructions()
    t0 = time.time()
    props = set(case.get("props", ["C02", "C07", "C09", "C10", "C17"]))
    viol: List[Dict[str, Any]] = []
    vcount: collections.Counter = collections.Counter()
    cnt: collections.Counter = collections.Counter()
    sets: Dict[str, set] = collections.defaultdict(set)

    def violate(prop, mechanism, msg, **w):
        if prop not in props:
            return
        vcount[(prop, mechanism)] += 1
        if vcount[(prop, mechanism)] <= 3:
            viol.append({"property": prop, "mechanism": mechanism, "message": msg, "step": None, "witness": {k: (v if isinstance(v, (int, float, str, bool, list, type(None))) else repr(v)[:500]) for k, v in w.items()}})

    def count(k, n=1):
        cnt[k] += n

    spec = world(case["world"])
    workdir = Path(tempfile.mkdtemp(prefix="sys_", dir=scratch_base()))
    try:
        y = write_scenario(spec, workdir)
        os.chdir(workdir)
        pending = C.Pending()
        with quiet_stdout():
            rp0 = hc.load_scenario(y, custom_instruction_generators=(pending,), output_suffix="run")
            rp0 = hc.crank(rp0, 2, flush_events=False).runner_payload  # warm-up: file cursors exhausted, requests admitted
        rp0.e.reporter.reports.clear()
        env = rp0.e
        plugs = ["DCFC", "LEVEL_2", "GAS_PUMP", "nope"]

        def check_state(s, path):
            count("sys_states_checked")
            if "C02" in props:
                for mech, msg, w in check_c02(s)[0]:
                    violate("C02", mech, msg, path=path, **w)
            if "C07" in props:
                for mech, msg, w in check_c07(s):
                    violate("C07", mech, msg, path=path, **w)
            if "C10" in props:
                for mech, msg, w in check_c10(s):
                    violate("C10", mech, msg, path=path, **w)
            if "C17" in props:
                for mech, msg, w in check_c17(s):
                    violate("C17", mech, msg, path=path, **w)
            for v in s.vehicles.values():
                sets["activities"].add(aname(v))

        seen = {state_key(rp0.s)}
        frontier: List[Tuple[Any, List[str]]] = [(rp0, [])]
        j, nsplit = case.get("split", [0, 1])
        cap = int(case.get("cap", 10**9))
        exhausted = True
        for d in range(int(case["depth"])):
            nxt = []
            for rp, path in frontier:
                vs = variants(rp.s, env, plugs)
                for idx, ins in enumerate(vs):
                    if d == 0 and idx % nsplit != j:
                        continue
                    if cnt["sys_transitions"] >= cap:
                        exhausted = False
                        break
                    # C09: single instruction on the reached state, through the real apply_instructions
                    if ins is not None and "C09" in props:
                        saved = list(env.reporter.reports)
                        T = real_apply(rp.s, env, (ins,))
                        env.reporter.reports[:] = saved
                        v1 = rp.s.vehicles.get(ins.vehicle_id)
                        kind = check_single(violate, count, rp.s, T, ins, prefix="sys_c09")
                        sets["c09_triples"].add(f"{aname(v1) if v1 else None}|{instr_kind(ins)}|{kind}")
                    pending.pending = [ins] if ins is not None else []
                    with quiet_stdout():
                        rp2 = hc.crank(rp, 1, flush_events=False).runner_payload
                    rp2.e.reporter.reports.clear()
                    count("sys_transitions")
                    p2 = path + [repr(ins)]
                    check_state(rp2.s, p2)
                    for v in rp2.s.vehicles.values():
                        p = rp.s.vehicles.get(v.id)
                        if p is not None and p.vehicle_state.instance_id != v.vehicle_state.instance_id:
                            sets["transitions"].add(f"{aname(p)}>{aname(v)}")
                    k = state_key(rp2.s)
                    if k not in seen:
                        seen.add(k)
                        nxt.append((rp2, p2))
                if cnt["sys_transitions"] >= cap:
                    break
            frontier = nxt
            count("sys_depth_reached")
            if cnt["sys_transitions"] >= cap:
                exhausted = False
                break
        cnt["sys_states"] = len(seen)
        cnt["sys_exhausted_depth"] = int(exhausted)
    finally:
        try:
            os.chdir("/")
        except Exception:
            pass
        shutil.rmtree(workdir, ignore_errors=True)
    return {
        "id": case["id"],
        "violations": viol,
        "violation_counts": {f"{p}|{m}": n for (p, m), n in vcount.items()},
        "counters": dict(cnt),
        "sets": {k: sorted(v) for k, v in sets.items()},
        "summary": {"world": case["world"], "depth": case["depth"], "split": case.get("split"), "states": len(seen), "transitions": cnt["sys_transitions"]},
        "wall_s": round(time.time() - t0, 2),
    }
