"""trace engine: generate scenario -> load -> crank(1)* with recording handler and hooks -> monitors.

One *case* is a JSON dict:
    {"engine": "trace", "id": "...", "spec": {...} | "gen": {"seed": n, "profile": {...}},
     "controller": {"stack": [...]}, "steps": n, "monitors": ["C02", ...], "opts": {...}}
The result is a JSON dict with violations (property, mechanism, message, step, witness), counters and a
short description of the case. Everything needed to re-run the case is in the case dict itself (replay).
"""
from __future__ import annotations

import collections
import os
import shutil
import tempfile
import time
import traceback
from pathlib import Path
from typing import Any, Dict, List, Optional

from hivemon import hooks
from hivemon.common import quiet_stdout, scratch_base, silence_logging
from hivemon.gen import controllers as C
from hivemon.gen.scenario import random_spec, spec_summary, write_scenario

MAX_VIOL_PER_MECH = 5


class Ctx:
    def __init__(self, case: Dict[str, Any]):
        self.case = case
        self.spec: Dict[str, Any] = {}
        self.rp = None
        self.env = None
        self.k = -1
        self.t = 0
        self.dt = 0
        self.start = 0
        self.prev = None
        self.s = None
        self.E: List[Any] = []
        self.H: Dict[str, List[Any]] = {}
        self.gen_log: List[Any] = []
        self.added_humans: Dict[str, str] = {}  # human-driven vehicles a co-simulation client added mid-run: vehicle id -> schedule id
        self.injected_departure: Dict[str, int] = {}
        self.injected_now: List[str] = []  # request ids a co-simulation client added before this step (no add event exists for them)
        self.states: List[Any] = []
        self.violations: List[Dict[str, Any]] = []
        self._vcount: collections.Counter = collections.Counter()
        self.counters: collections.Counter = collections.Counter()
        self.sets: Dict[str, set] = collections.defaultdict(set)
        self.info: Dict[str, Any] = {}
        self.workdir: Optional[Path] = None
        self.handler = None
        self.opts: Dict[str, Any] = case.get("opts", {})
        self.hostile = any(isinstance(x, dict) and "hostile" in x for x in (case.get("controller") or {}).get("stack", []))
        self.builtin_only = all(isinstance(x, str) and x in ("Dispatcher", "ChargingFleetManager") for x in (case.get("controller") or {}).get("stack", ["Dispatcher", "ChargingFleetManager"]))
        # trips are handed out by the built-in dispatcher alone (other generators may interrupt, stop or redirect vehicles,
        # but never send one to a request)
        self.trips_builtin = all(
            (isinstance(x, str) and x in ("Dispatcher", "ChargingFleetManager"))
            or (isinstance(x, dict) and "hostile" in x and x["hostile"].get("kinds") and "DispatchTrip" not in x["hostile"]["kinds"])
            or (isinstance(x, dict) and "benign_queue" in x)
            or (isinstance(x, dict) and "resend" in x)
            for x in (case.get("controller") or {}).get("stack", ["Dispatcher", "ChargingFleetManager"])
        )

    def violate(self, prop: str, mechanism: str, msg: str, **witness):
        key = (prop, mechanism)
        self._vcount[key] += 1
        if self._vcount[key] > MAX_VIOL_PER_MECH:
            return
        self.violations.append(
            {"property": prop, "mechanism": mechanism, "message": msg, "step": self.k, "sim_time": int(self.t), "witness": {k: _js(v) for k, v in witness.items()}}
        )

    def count(self, key: str, n: int = 1):
        self.counters[key] += n

    def seen(self, key: str, item):
        self.sets[key].add(item)


def _js(v):
    if isinstance(v, (int, float, str, bool)) or v is None:
        return v
    if isinstance(v, (list, tuple)):
        return [_js(x) for x in v]
    if isinstance(v, dict):
        return {str(k): _js(x) for k, x in v.items()}
    r = repr(v)
    return r if len(r) < 700 else r[:700] + "..."


def make_handler(ctx: Ctx):
    from nrel.hive.reporting.handler.handler import Handler

    class RecordingHandler(Handler):
        def __init__(self):
            self.cur: List[Any] = []
            self.flushes = 0

        def handle(self, reports, runner_payload):
            self.cur = list(reports)
            self.flushes += 1

        def close(self, runner_payload):
            pass

    return RecordingHandler()


def load_case(ctx: Ctx):
    """generates the scenario directory and loads it through the public API."""
    import nrel.hive.app.hive_cosim as hc
    from nrel.hive.runner.runner_payload_ops import set_instruction_generators

    case = ctx.case
    if "spec" in case:
        spec = case["spec"]
    else:
        spec = random_spec(case["gen"]["seed"], case["gen"].get("profile"))
    if ctx.hostile and (spec.get("dispatcher") or {}).get("charging_search_type") == "shortest_time_to_charge":
        # a hostile controller can strand a vehicle in the queue of a plug it cannot use (DESIGN 6); the
        # shortest-time ranking then simulates that vehicle charging on that plug and raises. That is a
        # consequence of the controller's instruction, not of any property here: hostile runs keep the default ranking.
        spec = dict(spec)
        spec["dispatcher"] = dict(spec["dispatcher"], charging_search_type="nearest_shortest_queue")
    if case.get("global_overrides"):
        spec = dict(spec)
        spec["global"] = dict(spec.get("global") or {}, **case["global_overrides"])
    ctx.spec = spec
    # one scenario directory per worker process, rewritten for every case: successive simulations in a process then
    # read different contents from identical file paths (a user editing a scenario in place between runs), which is
    # what exposes anything remembered per path rather than per simulation
    ctx.workdir = scratch_base() / f"case_p{os.getpid()}"
    shutil.rmtree(ctx.workdir, ignore_errors=True)
    ctx.workdir.mkdir(parents=True)
    yaml_path = write_scenario(spec, ctx.workdir)
    os.chdir(yaml_path.parent)
    with quiet_stdout():
        rp = hc.load_scenario(yaml_path, output_suffix="run")
    ctrl = case.get("controller") or {"stack": ["Dispatcher", "ChargingFleetManager"]}
    gens = C.build_generators(ctrl, rp.e, case.get("case_seed", 0))
    ctx.pending = next((g for g in gens if isinstance(g, C.Pending)), None)
    ctx.gen_names = [g.name for g in gens]  # the configured order
    if ctx.opts.get("record_generators", True):
        gens = tuple(C.record(g, ctx.gen_log) for g in gens)
    rp = set_instruction_generators(rp, gens)
    ctx.handler = make_handler(ctx)
    rp.e.reporter.add_handler(ctx.handler)
    ctx.rp = rp
    ctx.env = rp.e
    ctx.dt = int(rp.s.sim_timestep_duration_seconds)
    ctx.start = int(rp.s.sim_time)
    ctx.s = rp.s
    ctx.prev = rp.s
    return rp


def cosim_ops(ctx: Ctx, rp, k: int):
    """what a co-simulation operator may legitimately do to stations between calls, through the public entity
    methods and runner_payload_ops.modify_entities: throttle a plug type (Station.scale_charger_rate) or enlarge a
    station by one plug of a type it already has (Station.append_chargers)."""
    from nrel.hive.runner.runner_payload_ops import modify_entities_safe
    from returns.result import Failure

    o = ctx.opts["cosim_ops"]
    if k == 0 or k % int(o.get("every", 5)) != 0:
        return rp
    r = C._rng(ctx.case.get("case_seed", 0), "cosim", k)
    kind = r.choice(o.get("kinds", ["scale_rate"]))
    if kind == "try_move":
        # a client rebuilds a station or base from other coordinates and hands it back in a batch (with an unrelated, valid
        # change next to it): stations and bases do not move, the batch has to be refused as a whole
        import dataclasses

        sids, bids = rp.s.get_station_ids(), rp.s.get_base_ids()
        if not sids:
            return rp
        # preferably one that is in use
        used = sorted({getattr(v.vehicle_state, "station_id", None) for v in rp.s.vehicles.values()} - {None})
        sid = r.choice(used) if used and r.random() < 0.7 else r.choice(sids)
        st = rp.s.stations[sid]
        other = rp.s.stations[r.choice(sids)]
        moved = dataclasses.replace(st, position=other.position if other.geoid != st.geoid else rp.s.vehicles[r.choice(rp.s.get_vehicle_ids())].position)
        batch = [moved]
        if bids and r.random() < 0.5:
            b = rp.s.bases[r.choice(bids)]
            batch = [dataclasses.replace(b, position=moved.position)] + ([moved] if r.random() < 0.5 else [])
        if all(e.geoid == (rp.s.stations.get(e.id) or rp.s.bases.get(e.id)).geoid for e in batch):
            return rp
        res = modify_entities_safe(rp, batch)
        ctx.count("cosim_attempts_to_move_a_station_or_base")
        if isinstance(res, Failure):
            ctx.count("cosim_moves_refused")
            return rp
        return res.unwrap()
    if kind == "change_station_membership":
        # the operator hands a station to a fleet, opens it to one more, or makes it public again (Station.set_membership +
        # modify_entities), preferably one where vehicles are waiting or charging
        fids = sorted(f for f in rp.e.fleet_ids if f is not None)
        sids = rp.s.get_station_ids()
        if not sids:
            return rp
        used = sorted({getattr(v.vehicle_state, "station_id", None) for v in rp.s.vehicles.values() if type(v.vehicle_state).__name__ in ("ChargeQueueing", "ChargingStation")} - {None})
        sid = r.choice(used) if used and r.random() < 0.75 else r.choice(sids)
        st = rp.s.stations[sid]
        new_m = r.choice([(), tuple(r.sample(fids, 1)) if fids else ("fleet_x",), tuple(sorted(set(st.membership.memberships) | set(r.sample(fids, 1)))) if fids else ("fleet_x", "fleet_y")])
        res = modify_entities_safe(rp, [st.set_membership(new_m)])
        if isinstance(res, Failure):
            return rp
        ctx.count("cosim_change_station_membership")
        if sid in used:
            ctx.count("cosim_change_membership_of_station_in_use")
        return res.unwrap()
    if kind == "pop_readd":
        # a client takes a vehicle out of the simulation (pop_vehicle), corrects its energy from an outside model and puts the
        # same vehicle back (add_entity) before the next call - preferably one that is on its way to a request
        import dataclasses

        from nrel.hive.state.simulation_state import simulation_state_ops as sso

        vs = rp.s.get_vehicles()
        if not vs:
            return rp
        en_route = [x for x in vs if type(x.vehicle_state).__name__ == "DispatchTrip"]
        v = r.choice(en_route) if en_route and r.random() < 0.8 else r.choice(list(vs))
        try:
            err_, res_ = sso.pop_vehicle(rp.s, v.id)
            if err_ is not None:
                return rp
            s2, popped = res_
            if r.random() < 0.5:
                popped = popped.modify_energy({k_: e_ * 0.999 for k_, e_ in popped.energy.items()})
            s3 = sso.add_entity(s2, popped)
        except Exception:
            return rp
        ctx.count("cosim_pop_and_put_back")
        if v in en_route:
            ctx.count("cosim_pop_and_put_back_a_vehicle_on_its_way_to_a_request")
        return rp._replace(s=s3)
    if kind == "stale_write_back":
        # a client that read a vehicle some calls ago and now writes that (older) copy back with one more membership
        # (Vehicle.add_membership + modify_entities): the vehicle is replaced as a whole, activity and position together
        held = ctx.__dict__.setdefault("_held_copies", {})
        vs = rp.s.get_vehicles()
        if not vs:
            return rp
        out = rp
        if held:
            vid = r.choice(sorted(held))
            old = held.pop(vid)
            cur = rp.s.vehicles.get(vid)
            if cur is not None:
                res = modify_entities_safe(rp, [old.add_membership(f"tag{k}")])
                if not isinstance(res, Failure):
                    out = res.unwrap()
                    ctx.count("cosim_stale_copy_written_back")
                    if cur.geoid != old.geoid:
                        ctx.count("cosim_stale_copy_written_back_from_another_place")
        pick = r.choice(list(vs))
        moving = [x for x in vs if hasattr(x.vehicle_state, "route") and len(x.vehicle_state.route) > 0]
        if moving and r.random() < 0.7:
            pick = r.choice(moving)
        held[pick.id] = pick
        return out
    if kind == "change_request_membership":
        # the operator opens a waiting request to one more fleet (Request.add_membership + modify_entities), preferably
        # one that already has a vehicle on its way
        fids = sorted(f for f in rp.e.fleet_ids if f is not None)
        reqs = rp.s.get_requests()
        if not fids or not reqs:
            return rp
        assigned = [q for q in reqs if q.dispatched_vehicle is not None]
        q = r.choice(assigned) if assigned and r.random() < 0.5 else r.choice(list(reqs))
        fid = r.choice(fids)
        res = modify_entities_safe(rp, [q.add_membership(fid) if r.random() < 0.5 else q.set_membership(tuple(sorted(set(q.membership.memberships) | {fid})))])
        if isinstance(res, Failure):
            return rp
        ctx.count("cosim_change_request_membership")
        if q.dispatched_vehicle is not None:
            ctx.count("cosim_change_membership_of_assigned_request")
        elif len(set(q.membership.memberships) | {fid}) > 1:
            ctx.count("cosim_waiting_request_opened_to_second_fleet")
        return res.unwrap()
    if kind == "change_membership":
        # the operator moves a vehicle to another fleet (Vehicle.set_membership + modify_entities); private home-base
        # memberships are kept
        fids = sorted(f for f in rp.e.fleet_ids if f is not None)
        vids = rp.s.get_vehicle_ids()
        if not fids or not vids:
            return rp
        v = rp.s.vehicles[r.choice(vids)]
        fid = r.choice(fids)
        if o.get("prefer_en_route"):
            # preferably a vehicle on its way to a request, moved to a fleet that request is not open to
            en_route = [x for x in rp.s.get_vehicles() if type(x.vehicle_state).__name__ == "DispatchTrip" and x.vehicle_state.request_id in rp.s.requests]
            if en_route and r.random() < 0.7:
                v = r.choice(en_route)
                other = [f for f in fids if f not in rp.s.requests[v.vehicle_state.request_id].membership.memberships]
                if other:
                    fid = r.choice(other)
                    ctx.count("cosim_vehicle_en_route_moved_out_of_the_requests_fleet")
        keep = tuple(sorted(m for m in v.membership.memberships if "_private_" in m))
        res = modify_entities_safe(rp, [v.set_membership(keep + (fid,))])
        if isinstance(res, Failure):
            return rp
        ctx.count("cosim_change_membership")
        if hasattr(v.vehicle_state, "route") or type(v.vehicle_state).__name__ in ("ChargeQueueing", "ChargingStation", "ChargingBase", "ReserveBase"):
            ctx.count("cosim_change_membership_while_engaged")
        return res.unwrap()
    if kind == "add_human_vehicle":
        # a driver joins mid-run: a vehicle-file row with a schedule of the scenario's table, built by Vehicle.from_row and
        # added through simulation_state_ops.add_entity (possibly while that shift is already running)
        from nrel.hive.model.vehicle.vehicle import Vehicle
        from nrel.hive.state.simulation_state import simulation_state_ops as sso

        humans = [v for v in ctx.spec["vehicles"] if v.get("schedule")]
        if not humans:
            return rp
        proto = r.choice(humans)
        sid = r.choice([s_["id"] for s_ in ctx.spec["schedules"]]) if r.random() < 0.5 else proto["schedule"]
        vid = f"cosim_h{k}"
        row = {"vehicle_id": vid, "lat": str(proto["lat"]), "lon": str(proto["lon"]), "mechatronics_id": proto["mech"], "initial_soc": str(r.choice([0.5, 0.9])), "schedule_id": sid, "home_base_id": proto["home_base"]}
        try:
            newv = Vehicle.from_row(row, rp.s.road_network, rp.e)
            s2 = sso.add_entity(rp.s, newv)
        except Exception:
            return rp
        ctx.count("cosim_add_human_vehicle")
        ctx.added_humans[vid] = sid
        return rp._replace(s=s2)
    if kind == "add_vehicle":
        # a new (idle) vehicle joins the fleet mid-run, placed where an existing one stands or at a request's origin
        import dataclasses

        from nrel.hive.state.simulation_state import simulation_state_ops as sso
        from nrel.hive.state.vehicle_state.idle import Idle

        vids = rp.s.get_vehicle_ids()
        if not vids:
            return rp
        proto = rp.s.vehicles[r.choice(vids)]
        vid = f"cosim_v{k}"
        pos = proto.position
        if rp.s.requests and r.random() < 0.5:
            pos = rp.s.requests[r.choice(rp.s.get_request_ids())].position
        from nrel.hive.state.driver_state.driver_state import DriverState

        newv = dataclasses.replace(proto, id=vid, position=pos, vehicle_state=Idle.build(vid), driver_state=DriverState.build(vid, None, None, False), distance_traveled_km=0.0)
        res = sso.add_vehicle_safe(rp.s, newv)
        if isinstance(res, Failure):
            return rp
        ctx.count("cosim_add_vehicle")
        return rp._replace(s=res.unwrap())
    sids = rp.s.get_station_ids()
    if not sids:
        return rp
    st = rp.s.stations[r.choice(sids)]
    cids = sorted(st.state.keys())
    busy = [c for c in cids if st.state[c].available_chargers < st.state[c].total_chargers or st.state[c].enqueued_vehicles > 0]
    cid = r.choice(busy or cids)
    new = None
    if kind == "scale_rate":
        res = st.scale_charger_rate(cid, r.choice([0.2, 0.5, 0.8, 1.0]))
        if not isinstance(res, Failure):
            new = res.unwrap()
    elif kind == "append_plugs":
        err, out = st.append_chargers(cid, 1, rp.e)
        if err is None:
            new = out
    if new is None:
        return rp
    res = modify_entities_safe(rp, [new])
    if isinstance(res, Failure):
        return rp
    ctx.count(f"cosim_{kind}")
    if kind == "append_plugs" and cid in busy:
        ctx.count("cosim_append_to_busy_plug_type")
    return res.unwrap()


def inject_request(ctx: Ctx, rp, k: int):
    """a co-simulation client adding a request between calls through the public state operations
    (simulation_state_ops.add_request_safe): the file reader's fleet-membership admission rule does not apply,
    so a fleets scenario can hold requests of no fleet this way."""
    import h3
    from nrel.hive.model.request.request import Request
    from nrel.hive.state.simulation_state import simulation_state_ops as sso
    from returns.result import Failure

    o = ctx.opts["inject_requests"]
    if k % int(o.get("every", 7)) != 0 or not ctx.spec.get("requests"):
        return rp
    src = ctx.spec["requests"][(k * 7 + 3) % len(ctx.spec["requests"])]
    fleet = None
    if not o.get("public", True) and ctx.spec.get("fleets"):
        fleet = sorted(ctx.spec["fleets"])[k % len(ctx.spec["fleets"])]
    from nrel.hive.model.sim_time import SimTime

    dep = int(rp.s.sim_time)
    if o.get("backdate"):
        # a booking system that hands a request over late, under its original departure time (still within its patience)
        dep -= (k * 13 + 5) % max(1, int(rp.e.config.sim.request_cancel_time_seconds))
    try:
        req = Request.build(
            request_id=f"inj{k}",
            origin=h3.geo_to_h3(src["o"][0], src["o"][1], 15),
            destination=h3.geo_to_h3(src["d"][0], src["d"][1], 15),
            road_network=rp.s.road_network,
            departure_time=SimTime.build(dep),
            passengers=1,
            allows_pooling=False,
            fleet_id=fleet,
            value=3.0,
        )
    except Exception:
        return rp
    res = sso.add_request_safe(rp.s, req)
    if isinstance(res, Failure):
        return rp
    ctx.count("injected_requests")
    ctx.injected_now.append(req.id)
    ctx.injected_departure[req.id] = dep
    return rp._replace(s=res.unwrap())


def cleanup(ctx: Ctx):
    try:
        os.chdir("/")
    except Exception:
        pass
    if ctx.rp is not None:
        # close file handles of the real handlers without writing summaries
        for h in getattr(ctx.rp.e.reporter, "handlers", []):
            for attr in ("log_file", "instructions_file", "file"):
                f = getattr(h, attr, None)
                try:
                    if f is not None and hasattr(f, "close"):
                        f.close()
                except Exception:
                    pass
    if ctx.workdir is not None and not os.environ.get("HIVEMON_KEEP"):
        shutil.rmtree(ctx.workdir, ignore_errors=True)


def run_trace(case: Dict[str, Any]) -> Dict[str, Any]:
    from hivemon.monitors import registry

    silence_logging()
    t0 = time.time()
    ctx = Ctx(case)
    mons = [registry.make(name) for name in case.get("monitors", [])]
    need = set()
    for m in mons:
        need.update(m.hooks)
    hooks.install(sorted(need))
    result: Dict[str, Any] = {"id": case.get("id"), "engine": "trace"}
    primary = case.get("primary") or (case.get("monitors") or ["?"])[0]
    try:
        import nrel.hive.app.hive_cosim as hc

        rp = load_case(ctx)
        hooks.REC.clear()
        for m in mons:
            m.start(ctx)
        steps = int(case["steps"])
        for k in range(steps):
            hooks.REC.clear()
            del ctx.gen_log[:]
            ctx.k = k
            ctx.t = int(rp.s.sim_time)
            ctx.prev = rp.s
            del ctx.injected_now[:]
            if ctx.opts.get("cosim_noops") and k > 0 and k % int(ctx.opts["cosim_noops"]) == 0:
                # what a co-simulation client may do between calls without changing anything: hand the payload the
                # generators it already has (runner_payload_ops.set_instruction_generators)
                from nrel.hive.runner.runner_payload_ops import set_instruction_generators

                gens_now = tuple(rp.u.step_update.ordered_instruction_generators)
                if (k // int(ctx.opts["cosim_noops"])) % 2 == 1 and len(gens_now) > 1:
                    # ... or gets one generator (not the last one) and puts it back, as examples/cosim_custom_dispatcher.py does
                    from nrel.hive.runner.runner_payload_ops import update_instruction_generator_safe
                    from returns.result import Failure as _F

                    cand = [g for g in gens_now[:-1] if type(g).__name__ == g.name]
                    res_ = update_instruction_generator_safe(rp, cand[0]) if cand else _F(Exception("no generator to put back"))
                    if not isinstance(res_, _F):
                        rp = res_.unwrap()
                        ctx.count("cosim_noop_single_generator_put_back")
                else:
                    rp = set_instruction_generators(rp, gens_now)
                    ctx.count("cosim_noop_generator_swaps")
            if ctx.opts.get("cosim_ops"):
                rp = cosim_ops(ctx, rp, k)
                ctx.prev = rp.s
            if ctx.opts.get("inject_requests"):
                rp = inject_request(ctx, rp, k)
                ctx.prev = rp.s
            with quiet_stdout():
                rp = hc.crank(rp, 1).runner_payload
            ctx.rp = rp
            ctx.s = rp.s
            ctx.E = ctx.handler.cur
            ctx.H = hooks.REC.events
            if ctx.opts.get("keep_states"):
                ctx.states.append(rp.s)
            for m in mons:
                m.on_step(ctx)
            ctx.count("steps")
        for m in mons:
            m.finish(ctx)
    except Exception as e:  # an exception escaping the public API: the execution did not complete
        tb = traceback.format_exc()
        frames = traceback.extract_tb(e.__traceback__)
        where = next((f"{Path(f.filename).name}:{f.name}" for f in reversed(frames) if "/nrel/hive/" in f.filename), "harness")
        # an exception raised while a monitor or check was running (they run after the step, outside crank) is the
        # harness's own, whatever hive function it was calling at the time: never a verdict on the property
        in_harness = where == "harness" or any("/hivemon/monitors/" in f.filename or "/hivemon/checks/" in f.filename for f in frames)
        ctx.violate(
            primary if not in_harness else "HARNESS",
            f"exception:{type(e).__name__}@{where}",
            f"{type(e).__name__}: {e}",
            traceback=tb[-3000:],
        )
    finally:
        cleanup(ctx)
    result["violations"] = ctx.violations
    result["violation_counts"] = {f"{p}|{m}": n for (p, m), n in ctx._vcount.items()}
    result["counters"] = dict(ctx.counters)
    result["sets"] = {k: sorted(map(str, v)) for k, v in ctx.sets.items()}
    result["hook_calls"] = dict(hooks.REC.calls)
    result["summary"] = spec_summary(ctx.spec) if ctx.spec else {}
    result["summary"]["controller"] = (case.get("controller") or {}).get("stack", "builtin")
    result["summary"]["steps"] = case.get("steps")
    result["info"] = ctx.info
    result["wall_s"] = round(time.time() - t0, 3)
    hooks.REC.calls.clear()
    return result
