"""fan-out of cases over worker subprocesses (subprocess per batch, generous watchdog => inconclusive)."""
from __future__ import annotations

import json
import os
import shutil
import subprocess
import sys
import tempfile
import time
from pathlib import Path
from typing import Any, Dict, List, Optional, Tuple

from hivemon.common import PY, REPO, ROOT, scratch_base

NPROC = int(os.environ.get("HIVEMON_NPROC", os.cpu_count() or 4))


def worker_env(hashseed: Optional[str] = "0", extra: Optional[Dict[str, str]] = None) -> Dict[str, str]:
    env = dict(os.environ)
    env["PYTHONPATH"] = f"{REPO}:{ROOT}"
    env["PYTHONDONTWRITEBYTECODE"] = "1"
    env["HIVEMON_ROOT"] = str(ROOT)
    env["HIVEMON_REPO"] = str(REPO)
    env.setdefault("HIVEMON_HOOKS", "1")
    if hashseed is not None:
        env["PYTHONHASHSEED"] = str(hashseed)
    if extra:
        env.update(extra)
    return env


def run_cases(
    cases: List[Dict[str, Any]],
    nproc: int = NPROC,
    timeout_s: float = 1800.0,
    hashseed: Optional[str] = "0",
    warn_as_error: bool = True,
) -> Tuple[List[Dict[str, Any]], List[str]]:
    """returns (results, problems). problems are harness-level: missing results, timeouts, crashes."""
    if not cases:
        return [], []
    for i, c in enumerate(cases):
        c.setdefault("id", f"case{i}")
    nproc = max(1, min(nproc, len(cases)))
    work = Path(tempfile.mkdtemp(prefix="pool_", dir=scratch_base()))
    # cases may pin the interpreter hash seed of the process that runs them (C01): one batch set per hash seed
    # a case marked "solo" gets a process of its own (it is the first and only simulation that interpreter ever loads)
    # a case may also name environment variables of its process ("env": {"TZ": ...}); they are part of the grouping
    groups: Dict[Any, List[Dict[str, Any]]] = {}
    batches_hs: List[Tuple[List[Dict[str, Any]], Any]] = []
    shared = [c for c in cases if not c.get("solo")]
    for c in cases:
        hs = (str(c["hashseed"]) if "hashseed" in c else hashseed, tuple(sorted((c.get("env") or {}).items())))
        if c.get("solo"):
            batches_hs.append(([c], hs))
        else:
            groups.setdefault(hs, []).append(c)
    for hs, cs in groups.items():
        k = max(1, min(len(cs), round(nproc * len(cs) / len(shared)) or 1))
        for i in range(k):
            if cs[i::k]:
                batches_hs.append((cs[i::k], hs))
    batches_hs.sort(key=lambda b: -len(b[0]))  # long batches first
    procs = []
    try:
        deadline = time.time() + timeout_s
        problems: List[str] = []
        pending = list(enumerate(batches_hs))
        running: List[Any] = []
        while pending or running:
            while pending and len(running) < nproc:
                i, (b, hs) = pending.pop(0)
                bf, of = work / f"batch{i}.json", work / f"out{i}.jsonl"
                json.dump(b, open(bf, "w"))
                cmd = [PY, "-X", "faulthandler"]
                if warn_as_error:
                    cmd += ["-W", "error::RuntimeWarning"]
                cmd += ["-m", "hivemon.drive.worker", str(bf), str(of)]
                p = subprocess.Popen(cmd, env=worker_env(hs[0], dict(hs[1])), stdout=subprocess.DEVNULL, stderr=open(work / f"err{i}.txt", "w"), cwd="/")
                procs.append((p, of, b, work / f"err{i}.txt"))
                running.append(p)
            running = [p for p in running if p.poll() is None]
            if time.time() > deadline:
                for p in running:
                    p.kill()
                    problems.append(f"worker timed out after {timeout_s}s (watchdog)")
                if pending:
                    problems.append(f"{len(pending)} batches never started before the watchdog fired")
                break
            if running and (len(running) >= nproc or not pending):
                time.sleep(0.05)
        for p, of, b, ef in procs:
            try:
                p.wait(timeout=5)
            except subprocess.TimeoutExpired:
                p.kill()
        results: List[Dict[str, Any]] = []
        for p, of, b, ef in procs:
            got = []
            done = False
            if of.exists():
                for line in open(of):
                    line = line.strip()
                    if not line:
                        continue
                    try:
                        d = json.loads(line)
                    except Exception:
                        continue
                    if d.get("batch_done"):
                        done = True
                    else:
                        got.append(d)
            results.extend(got)
            if not done:
                err = ef.read_text()[-1500:] if ef.exists() else ""
                missing = [c["id"] for c in b][len(got):]
                problems.append(f"worker exit={p.returncode} finished {len(got)}/{len(b)} cases; first missing={missing[:1]} stderr tail: {err}")
        for r in results:
            if r.get("harness_error"):
                problems.append(f"harness error in {r.get('id')}: {r['harness_error']} {r.get('traceback','')[-800:]}")
        return results, problems
    finally:
        shutil.rmtree(work, ignore_errors=True)
