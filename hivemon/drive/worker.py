"""worker process: runs a batch of cases, one JSON result line per case (flushed as it goes)."""
from __future__ import annotations

import json
import os
import sys
import time
import traceback


def main():
    batch_file, out_file = sys.argv[1], sys.argv[2]
    cases = json.load(open(batch_file))
    # keep hive's stdout noise away from the parent's verdict lines
    devnull = open(os.devnull, "w")
    sys.stdout = devnull
    from hivemon.drive import engines

    with open(out_file, "w") as out:
        for case in cases:
            t0 = time.time()
            try:
                res = engines.get(case["engine"])(case)
            except Exception as e:  # harness failure: never a verdict on the property
                res = {"id": case.get("id"), "engine": case.get("engine"), "harness_error": f"{type(e).__name__}: {e}", "traceback": traceback.format_exc()[-4000:]}
            res.setdefault("id", case.get("id"))
            res.setdefault("wall_s", round(time.time() - t0, 3))
            out.write(json.dumps(res, default=str) + "\n")
            out.flush()
        out.write(json.dumps({"batch_done": True}) + "\n")


if __name__ == "__main__":
    main()
