"""engine name -> callable(case) -> result dict. Engines are imported lazily inside worker processes."""
import importlib

ENGINES = {
    "trace": "hivemon.drive.tracer:run_trace",
    "c01_exec": "hivemon.checks.c01:run_exec",
    "c08_ops": "hivemon.checks.c08:run_ops",
    "c04_sweep": "hivemon.checks.c04:run_sweep",
    "c12_direct": "hivemon.checks.c12:run_direct",
    "c13_sweep": "hivemon.checks.c13:run_sweep",
    "c14_sweep": "hivemon.checks.c14:run_sweep",
    "c14_instr": "hivemon.checks.c14:run_instr",
    "c19_split": "hivemon.checks.c19:run_split",
    "c15_diff": "hivemon.checks.c15:run_diff",
    "c16_twice": "hivemon.checks.c16:run_twice",
    "systematic": "hivemon.drive.systematic:run_systematic",
    "c06_traverse": "hivemon.checks.c06:run_traverse_sweep",
}


def get(name: str):
    mod, fn = ENGINES[name].split(":")
    return getattr(importlib.import_module(mod), fn)
