"""C13 in-run part: every route requested during a scenario run is judged by the same post-conditions."""
from hivemon.monitors.base import Monitor


class C13R(Monitor):
    prop = "C13"
    hooks = ("route",)

    def on_step(self, ctx):
        from hivemon.checks.c13 import check_route

        for ev in ctx.H.get("route", []):
            net = ev["net"]
            osm = type(net).__name__ == "OSMRoadNetwork"
            ctx.count("c13_run_routes")
            check_route(net, ev["o"], ev["d"], ev["route"], lambda mech, msg, **w: ctx.violate("C13", mech, msg, **w), ctx.count, osm)
