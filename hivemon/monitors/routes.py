"""C13 in-run part: every route requested during a scenario run is judged by the same post-conditions."""
from hivemon.monitors.base import Monitor


class C13R(Monitor):
    prop = "C13"
    hooks = ("route",)

    def on_step(self, ctx):
        from hivemon.checks.c13 import check_route

        for ev in ctx.H.get("route", []):
            net = ev["net"]
            osm = type(net).__name__ == "OSMRoadNetwork"
            ctx.count("c13_run_routes")
            check_route(net, ev["o"], ev["d"], ev["route"], lambda mech, msg, **w: ctx.violate("C13", mech, msg, **w), ctx.count, osm)


class C14R(Monitor):
    """C14 in-run part: every route handed to a vehicle during a scenario run (standing or under way, first instruction or
    re-instruction) is judged against an independent Dijkstra over the link table's travel times."""

    prop = "C14"
    hooks = ("route",)

    def start(self, ctx):
        self.adj = None
        self.cache = {}

    def _adj(self, net, ctx):
        if self.adj is None:
            from hivemon.checks.c14 import adjacency

            kind = (ctx.spec.get("network") or {}).get("type") if isinstance(ctx.spec, dict) else None
            if kind == "grid":
                adj = {}
                for l in net.link_helper.links.values():
                    a, b = (int(x) for x in l.link_id.split("-")[:2])
                    adj.setdefault(a, {})[b] = l.distance_km / l.speed_kmph * 3600.0
                self.adj = adj
            else:
                self.adj = adjacency(net.graph)
        return self.adj

    def on_step(self, ctx):
        from hivemon.checks.c14 import dijkstra_all

        for ev in ctx.H.get("route", []):
            net = ev["net"]
            if type(net).__name__ != "OSMRoadNetwork":
                continue
            r = ev["route"]
            if len(r) < 2 or ev["o"].link_id == ev["d"].link_id:
                continue
            try:
                u = int(ev["o"].link_id.split("-")[1])
                v = int(ev["d"].link_id.split("-")[0])
                adj = self._adj(net, ctx)
                inner = r[1:-1]
                hops = [(int(l.link_id.split("-")[0]), int(l.link_id.split("-")[1])) for l in inner]
                cost = sum(adj[a][b] for a, b in hops)
            except (KeyError, ValueError, IndexError):
                continue  # malformed routes are C13's business
            if hops and (hops[0][0] != u or hops[-1][1] != v):
                continue
            if not hops and u != v:
                continue
            if u not in self.cache:
                self.cache[u] = dijkstra_all(adj, u)
            opt = self.cache[u].get(v)
            if opt is None:
                continue
            ctx.count("c14_run_routes")
            if len(hops) > 1:
                ctx.count("c14_run_multi_link_routes")
            if cost > opt + 1e-6:
                ctx.violate("C14", "route-slower-than-optimum", f"route handed out in step {ctx.k} from link {ev['o'].link_id} to link {ev['d'].link_id}: inner part takes {cost:.3f}s, the fastest path {u}->{v} takes {opt:.3f}s", excess_s=cost - opt, links=[l.link_id for l in inner][:12])
