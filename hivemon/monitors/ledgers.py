"""ledger monitors: C03 (requests resolved exactly once), C04 (vehicle energy), C05 (energy and money conservation)."""
from __future__ import annotations

import collections
from typing import Any, Dict

from hivemon.monitors.base import Monitor, aname


def _etype_name(et) -> str:
    return et.name


def capacity_of(mech) -> float:
    for a in ("battery_capacity_kwh", "tank_capacity_gallons"):
        if hasattr(mech, a):
            return float(getattr(mech, a))
    raise AttributeError("unknown mechatronics capacity")


# ------------------------------------------------------------------------------------------ C03


class C03(Monitor):
    prop = "C03"
    hooks = ("move",)

    def start(self, ctx):
        self.state: Dict[str, str] = {}  # rid -> waiting | picked | cancelled | dropped
        self.by: Dict[str, str] = {}  # rid -> vehicle that picked it up
        self.req: Dict[str, Any] = {}  # rid -> Request (first seen)
        self.excused: set = set()  # picked-up requests whose vehicle ran out of energy
        self.pick_count = collections.Counter()
        self.cancel_count = collections.Counter()
        self.drop_count = collections.Counter()
        for r in ctx.s.requests.values():  # none normally: requests arrive through the update
            self.state[r.id] = "waiting"
            self.req[r.id] = r

    def on_step(self, ctx):
        s, prev, E = ctx.s, ctx.prev, ctx.E
        fares = collections.defaultdict(float)
        paid = collections.defaultdict(float)
        for rid in ctx.injected_now:  # added by a co-simulation client through add_request_safe: admitted without a file event
            if rid in self.state:
                ctx.violate("C03", "admitted-twice", f"request {rid} injected although the ledger has it as {self.state[rid]}", request=rid)
            self.state[rid] = "waiting"
            ctx.count("c03_injected")
        for r in E:
            t = r.report_type.name
            d = r.report
            if t == "ADD_REQUEST_EVENT":
                rid = d["request_id"]
                ctx.count("c03_adds")
                if rid in self.state:
                    ctx.violate("C03", "admitted-twice", f"request {rid} admitted again (was {self.state[rid]})", request=rid)
                self.state[rid] = "waiting"
            elif t == "PICKUP_REQUEST_EVENT":
                rid, vid = d["request_id"], d["vehicle_id"]
                ctx.count("c03_pickups")
                self.pick_count[rid] += 1
                st = self.state.get(rid)
                if st != "waiting":
                    ctx.violate("C03", f"pickup-of-{st}", f"request {rid} picked up by {vid} while ledger says {st}", request=rid, vehicle=vid)
                self.state[rid] = "picked"
                self.by[rid] = vid
                fares[vid] += float(d["price"])
                req = prev.requests.get(rid)
                v = s.vehicles.get(vid)
                if req is None and v is not None and aname(v) == "ServicingTrip" and v.vehicle_state.request.id == rid:
                    req = v.vehicle_state.request
                if req is not None:
                    self.req[rid] = req
                    if abs(float(d["price"]) - float(req.value)) > 1e-9:
                        ctx.violate("C03", "fare-differs-from-request-value", f"pickup of {rid} credited {d['price']} but the request is worth {req.value}", request=rid)
                # the vehicle now carries the request (or ran dry right away)
                ran_dry = any(ev["vid"] == vid for ev in ctx.H.get("out_of_energy", []))
                if v is None or not (aname(v) == "ServicingTrip" and v.vehicle_state.request.id == rid):
                    if ran_dry and v is not None and aname(v) == "OutOfService":
                        self.excused.add(rid)
                    else:
                        ctx.violate("C03", "picked-up-but-not-on-board", f"request {rid} picked up by {vid} which is now {aname(v) if v else None}", request=rid, vehicle=vid)
            elif t == "CANCEL_REQUEST_EVENT":
                rid = d["request_id"]
                ctx.count("c03_cancels")
                self.cancel_count[rid] += 1
                st = self.state.get(rid)
                if st != "waiting":
                    ctx.violate("C03", f"cancel-of-{st}", f"request {rid} cancelled while ledger says {st}", request=rid)
                self.state[rid] = "cancelled"
            elif t == "DROPOFF_REQUEST_EVENT":
                rid, vid = d["request_id"], d["vehicle_id"]
                ctx.count("c03_dropoffs")
                self.drop_count[rid] += 1
                st = self.state.get(rid)
                if st != "picked":
                    ctx.violate("C03", f"dropoff-of-{st}", f"request {rid} dropped off while ledger says {st}", request=rid, vehicle=vid)
                elif self.by.get(rid) != vid:
                    ctx.violate("C03", "dropoff-by-other-vehicle", f"request {rid} picked up by {self.by.get(rid)} but dropped off by {vid}", request=rid)
                req = self.req.get(rid)
                if req is not None and req.destination != d["geoid"]:
                    ctx.violate("C03", "dropoff-not-at-destination", f"request {rid} dropped at {d['geoid']} != destination {req.destination}", request=rid)
                self.state[rid] = "dropped"
            elif t == "VEHICLE_CHARGE_EVENT":
                paid[d["vehicle_id"]] += float(d["price"])
        # waiting set == SimulationState.requests
        waiting = {rid for rid, st in self.state.items() if st == "waiting"}
        actual = set(s.requests.keys())
        if waiting != actual:
            for rid in sorted(waiting - actual)[:3]:
                ctx.violate("C03", "vanished-without-event", f"request {rid} left the simulation without a pickup or cancel event", request=rid)
                self.state[rid] = "lost"
            for rid in sorted(actual - waiting)[:3]:
                ctx.violate("C03", f"present-but-{self.state.get(rid)}", f"request {rid} is waiting in the simulation but the ledger says {self.state.get(rid)}", request=rid)
                self.state[rid] = "waiting"
        # fare credited exactly once, to the vehicle that picked up
        for v in s.vehicles.values():
            p = prev.vehicles.get(v.id)
            if p is None:
                continue
            exp = fares.get(v.id, 0.0) - paid.get(v.id, 0.0)
            got = v.balance - p.balance
            if abs(got - exp) > 1e-6 * max(1.0, abs(exp)):
                ctx.violate("C03", "balance-vs-fares", f"vehicle {v.id} balance changed by {got} but fares - payments of the step = {exp}", vehicle=v.id)
            # non-diversion
            if aname(p) == "ServicingTrip" and len(p.vehicle_state.route) > 0:
                ctx.count("c03_loaded_vehicle_steps")
                same = aname(v) == "ServicingTrip" and v.vehicle_state.instance_id == p.vehicle_state.instance_id
                if not same:
                    ran_dry = any(ev["vid"] == v.id for ev in ctx.H.get("out_of_energy", []))
                    if ran_dry and aname(v) == "OutOfService":
                        self.excused.add(p.vehicle_state.request.id)
                        ctx.count("c03_stranded_by_energy")
                    else:
                        ctx.violate("C03", f"diverted-to-{aname(v).lower()}", f"vehicle {v.id} carrying {p.vehicle_state.request.id} left its trip for {aname(v)}", vehicle=v.id)
        # interruption attempts seen (evidence)
        for name, t, ins, sim in ctx.gen_log:
            for i in ins:
                pv = sim.vehicles.get(i.vehicle_id)
                if pv is not None and aname(pv) == "ServicingTrip" and len(pv.vehicle_state.route) > 0:
                    ctx.count("c03_interrupt_attempts")
        for rid, n in list(self.pick_count.items()):
            if n > 1:
                ctx.violate("C03", "picked-up-twice", f"request {rid} has {n} pickup events", request=rid)
                self.pick_count[rid] = 1
        for rid, n in list(self.cancel_count.items()):
            if n > 1:
                ctx.violate("C03", "cancelled-twice", f"request {rid} has {n} cancel events", request=rid)
                self.cancel_count[rid] = 1
        for rid, n in list(self.drop_count.items()):
            if n > 1:
                ctx.violate("C03", "dropped-off-twice", f"request {rid} has {n} drop-off events", request=rid)
                self.drop_count[rid] = 1

    def finish(self, ctx):
        s = ctx.s
        on_board = {v.vehicle_state.request.id: v.id for v in s.vehicles.values() if aname(v) == "ServicingTrip"}
        for rid, st in self.state.items():
            if st == "picked" and rid not in self.excused:
                # neither dropped off nor excused: must still be on board of the vehicle that picked it up
                if on_board.get(rid) != self.by.get(rid):
                    ctx.violate("C03", "picked-up-never-dropped", f"request {rid} picked up by {self.by.get(rid)} is neither dropped off nor on board at the end", request=rid)
        ctx.count("c03_requests_tracked", len(self.state))
        ctx.count("c03_end_waiting", sum(1 for x in self.state.values() if x == "waiting"))
        ctx.count("c03_end_on_board", sum(1 for x in self.state.values() if x == "picked"))


# ------------------------------------------------------------------------------------------ C04


class C04(Monitor):
    prop = "C04"
    hooks = ("move", "charge", "mech")

    def start(self, ctx):
        self.init = {v.id: dict(v.energy) for v in ctx.s.vehicles.values()}

    def on_step(self, ctx):
        s, prev, env = ctx.s, ctx.prev, ctx.env
        dt = ctx.dt
        for v in s.vehicles.values():
            p = prev.vehicles.get(v.id)
            mech = env.mechatronics.get(v.mechatronics_id)
            if p is None or mech is None:
                continue
            cap = capacity_of(mech)
            if v.id not in self.init:  # joined mid-run: the ledger starts from what it carried when first seen
                self.init[v.id] = {et: p.energy[et] - p.energy_gained[et] + p.energy_expended[et] for et in p.energy}
            for et, e in v.energy.items():
                ctx.count("c04_vehicle_steps")
                if e < 0 or e > cap + 1e-9:
                    ctx.violate("C04", "level-out-of-range", f"{v.id} {et.name} level {e} outside [0,{cap}]", vehicle=v.id)
                exp = self.init[v.id][et] + v.energy_gained[et] - v.energy_expended[et]
                if abs(e - exp) > 1e-6 * cap:
                    ctx.violate(
                        "C04",
                        f"ledger-mismatch-{type(mech).__name__.lower()}",
                        f"{v.id} {et.name}: level {e} != initial {self.init[v.id][et]} + gained {v.energy_gained[et]} - expended {v.energy_expended[et]} = {exp}",
                        vehicle=v.id,
                        activity=aname(v),
                    )
                if v.energy_gained[et] < p.energy_gained[et] - 1e-12:
                    ctx.violate("C04", "gained-decreased", f"{v.id} gained total went down", vehicle=v.id)
                if v.energy_expended[et] < p.energy_expended[et] - 1e-12:
                    ctx.violate("C04", "expended-decreased", f"{v.id} expended total went down", vehicle=v.id)
                moved = v.distance_traveled_km > p.distance_traveled_km
                if moved:
                    ctx.count("c04_moves")
                    if p.energy[et] > 1e-9 * cap and not v.energy_expended[et] > p.energy_expended[et]:
                        ctx.violate("C04", f"drove-for-free-{type(mech).__name__.lower()}", f"{v.id} drove {v.distance_traveled_km - p.distance_traveled_km} km without expending energy", vehicle=v.id)
                # idling in Idle / queueing with energy in the tank costs something
                idled = (aname(p) == "Idle" and aname(v) == "Idle" and v.vehicle_state.instance_id == p.vehicle_state.instance_id and v.vehicle_state.idle_duration > p.vehicle_state.idle_duration) or (
                    aname(p) == "ChargeQueueing" and aname(v) == "ChargeQueueing" and v.vehicle_state.instance_id == p.vehicle_state.instance_id and _can_use(env, s, mech, v.vehicle_state)
                )
                # ... and so does the step in which a vehicle falls back to Idle without having driven: its task was over when the
                # step began (terminal conditions are detected at the start of the update), so it stood idle for the whole step
                entered_idle = aname(v) == "Idle" and not moved and getattr(p.vehicle_state, "instance_id", None) != v.vehicle_state.instance_id
                if entered_idle:
                    ctx.count("c04_steps_falling_back_to_idle")
                idled = idled or entered_idle
                if idled and p.energy[et] > 1e-9 * cap and _idle_rate(mech) > 0:  # a residue below float resolution of the totals cannot show
                    ctx.count("c04_idle_steps")
                    if not v.energy_expended[et] > p.energy_expended[et]:
                        ctx.violate("C04", f"idled-for-free-{type(mech).__name__.lower()}", f"{v.id} idled {dt}s in {aname(v)} without expending energy", vehicle=v.id)
            if v.geoid != p.geoid:
                ctx.count("c04_position_changes")
                if not all(e > 0 for e in v.energy.values()):
                    ctx.violate("C04", "moved-on-empty", f"{v.id} changed position and ended the step with no energy", vehicle=v.id)
                if not any(m["vid"] == v.id and m.get("traverse") for m in ctx.H.get("move", [])):
                    ctx.violate("C04", "moved-without-move", f"{v.id} changed position although no move was performed", vehicle=v.id)
        for ev in ctx.H.get("out_of_energy", []):
            ctx.count("c04_out_of_energy")
            vid = ev["vid"]
            b = ev["sim_before"].vehicles.get(vid)
            err, out = ev["result"]
            a = out.vehicles.get(vid) if out is not None else None
            if a is not None and b is not None:
                if a.geoid != b.geoid or a.distance_traveled_km != b.distance_traveled_km:
                    ctx.violate("C04", "moved-while-running-dry", f"{vid} lacked the energy for its movement but moved anyway", vehicle=vid)
                if aname(a) != "OutOfService":
                    ctx.violate("C04", "ran-dry-not-out-of-service", f"{vid} lacked the energy for its movement but is {aname(a)}", vehicle=vid)
        for ev in ctx.H.get("charge", []):
            self._check_charge(ctx, ev)
        for ev in ctx.H.get("consume_energy", []):
            check_consume(ctx.violate, ctx.count, ev)
        for ev in ctx.H.get("idle", []):
            check_idle(ctx.violate, ctx.count, ev)
        for ev in ctx.H.get("add_energy", []):
            check_add(ctx.violate, ctx.count, ev)

    def _check_charge(self, ctx, ev):
        v0, v1 = ev["v0"], ev["v1"]
        if v0 is None or v1 is None or ev["s0"] is None:
            return
        ctx.count("c04_charge_steps")
        err, charger = ev["s0"].get_charger_instance(ev["cid"])
        if charger is None:
            return
        et = charger.energy_type
        if et not in v0.energy:
            return
        d = v1.energy[et] - v0.energy[et]
        lim = plug_limit(charger, ev["dt"])
        if d < -1e-12:
            ctx.violate("C04", "charging-lowered-level", f"{ev['vid']} lost {-d} while charging", vehicle=ev["vid"])
        if d > lim * (1 + 1e-9) + 1e-9:
            ctx.violate("C04", "charged-more-than-plug-delivers", f"{ev['vid']} gained {d} in {ev['dt']}s on {charger.id} (limit {lim})", vehicle=ev["vid"], plug=charger.id, dt=ev["dt"])


def _can_use(env, s, mech, qs) -> bool:
    """a vehicle queueing for a plug it can never use is stuck in a failing default transition whenever a plug is
    free (its update errors and nothing happens); that degenerate, controller-made situation is out of scope (DESIGN 6)"""
    ch = env.chargers.get(qs.charger_id)
    st = s.stations.get(qs.station_id)
    return ch is not None and st is not None and qs.charger_id in st.state and bool(mech.valid_charger(ch))


def _idle_rate(mech) -> float:
    for a in ("idle_kwh_per_hour", "idle_gallons_per_hour"):
        if hasattr(mech, a):
            return float(getattr(mech, a))
    return 1.0


def plug_limit(charger, dt) -> float:
    """what the plug can deliver in dt seconds, in the plug's own energy unit."""
    if charger.energy_type.name == "ELECTRIC":
        return float(charger.rate) * dt / 3600.0
    return float(charger.rate) * dt  # gal per second


def _et_of(mech):
    from nrel.hive.model.energy.energytype import EnergyType

    return EnergyType.ELECTRIC if hasattr(mech, "battery_capacity_kwh") else EnergyType.GASOLINE


def check_consume(violate, count, ev):
    mech, v0, v1, route = ev["mech"], ev["v0"], ev["v1"], ev["route"]
    et = _et_of(mech)
    kind = type(mech).__name__.lower()
    count("c04_consume_calls")
    d = v0.energy[et] - v1.energy[et]
    dist = sum(l.distance_km for l in route)
    if v1.energy[et] < 0:
        violate("C04", "consume-negative-level", f"consume_energy left level {v1.energy[et]}", mech=kind)
    if abs((v1.energy_expended[et] - v0.energy_expended[et]) - d) > 1e-9 * max(1.0, abs(d)):
        violate("C04", f"consume-books-wrong-amount-{kind}", f"consume_energy removed {d} but booked {v1.energy_expended[et] - v0.energy_expended[et]}", mech=kind)
    if dist > 0 and v0.energy[et] > 1e-9 * capacity_of(mech) and not d > 0:
        violate("C04", f"consume-free-{kind}", f"driving {dist} km removed {d}", mech=kind)
    if v1.energy_gained[et] != v0.energy_gained[et]:
        violate("C04", "consume-touched-gained", "consume_energy changed energy_gained", mech=kind)


def check_idle(violate, count, ev):
    mech, v0, v1, dt = ev["mech"], ev["v0"], ev["v1"], ev["dt"]
    et = _et_of(mech)
    kind = type(mech).__name__.lower()
    count("c04_idle_calls")
    d = v0.energy[et] - v1.energy[et]
    if v1.energy[et] < 0:
        violate("C04", "idle-negative-level", f"idle left level {v1.energy[et]}", mech=kind)
    if abs((v1.energy_expended[et] - v0.energy_expended[et]) - d) > 1e-9 * max(1.0, abs(d)):
        violate("C04", f"idle-books-wrong-amount-{kind}", f"idle removed {d} but booked {v1.energy_expended[et] - v0.energy_expended[et]}", mech=kind)
    if dt > 0 and v0.energy[et] > 1e-9 * capacity_of(mech) and _idle_rate(mech) > 0 and not d > 0:
        violate("C04", f"idle-free-{kind}", f"idling {dt}s removed {d}", mech=kind)


def check_add(violate, count, ev):
    mech, v0, v1, dt, charger = ev["mech"], ev["v0"], ev["v1"], ev["dt"], ev["charger"]
    et = _et_of(mech)
    kind = type(mech).__name__.lower()
    count("c04_add_calls")
    cap = capacity_of(mech)
    d = v1.energy[et] - v0.energy[et]
    lim = plug_limit(charger, dt) if mech.valid_charger(charger) else 0.0
    if d < -1e-12:
        violate("C04", "add-lowered-level", f"add_energy lowered the level by {-d}", mech=kind)
    if d > lim * (1 + 1e-9) + 1e-9:
        violate("C04", "add-more-than-plug-delivers", f"add_energy({charger.id}, {dt}s) added {d} > {lim}", mech=kind, plug=charger.id, dt=dt)
    if v1.energy[et] > cap + 1e-9:
        violate("C04", "add-over-capacity", f"add_energy filled to {v1.energy[et]} > {cap}", mech=kind)
    if abs((v1.energy_gained[et] - v0.energy_gained[et]) - d) > 1e-9 * max(1.0, abs(d)):
        violate("C04", f"add-books-wrong-amount-{kind}", f"add_energy added {d} but booked {v1.energy_gained[et] - v0.energy_gained[et]}", mech=kind)
    if v1.energy_expended[et] != v0.energy_expended[et]:
        violate("C04", "add-touched-expended", "add_energy changed energy_expended", mech=kind)


# ------------------------------------------------------------------------------------------ C05


class C05(Monitor):
    prop = "C05"
    hooks = ("charge",)

    def start(self, ctx):
        self.fare = collections.defaultdict(float)
        self.fare_state = collections.defaultdict(float)
        self.fare_state_unknown = set()
        self.paid = collections.defaultdict(float)
        self.recv = collections.defaultdict(float)
        # the tariff table of the input, read independently of the code (generated scenarios only)
        self.table = None
        if isinstance(ctx.spec, dict) and "stations" in ctx.spec and "sim" in ctx.spec:
            from hivemon.monitors.calendar import TariffModel

            self.table = TariffModel(ctx.spec, ctx.s)

    def on_step(self, ctx):
        s, prev = ctx.s, ctx.prev
        from nrel.hive.model.energy.energytype import EnergyType

        if self.table is not None:
            self.table.advance(ctx.t)
        # per charge step: one transacted amount applied to both sides at the tariff in force
        step_paid = collections.defaultdict(float)
        step_recv = collections.defaultdict(float)
        for ev in ctx.H.get("charge", []):
            v0, v1, s0, s1 = ev["v0"], ev["v1"], ev["s0"], ev["s1"]
            if v0 is None or v1 is None or s0 is None or s1 is None:
                continue
            ctx.count("c05_charge_steps")
            err, charger = s0.get_charger_instance(ev["cid"])
            if charger is None or charger.energy_type not in v0.energy:
                continue
            et = charger.energy_type
            de = v1.energy[et] - v0.energy[et]
            pay = v0.balance - v1.balance
            rcv = s1.balance - s0.balance
            disp = s1.energy_dispensed.get(et, 0.0) - s0.energy_dispensed.get(et, 0.0)
            gained = v1.energy_gained[et] - v0.energy_gained[et]
            tariff = s.stations[ev["sid"]].state[ev["cid"]].price_per_kwh if ev["sid"] in s.stations and ev["cid"] in s.stations[ev["sid"]].state else None
            tol = 1e-9 * max(1.0, abs(pay)) + 1e-9
            if abs(pay - rcv) > tol:
                ctx.violate("C05", "payment-not-received-in-full", f"{ev['vid']} paid {pay} but station {ev['sid']} received {rcv}", vehicle=ev["vid"], station=ev["sid"])
            if tariff is not None and abs(pay - de * tariff) > 1e-9 * max(1.0, abs(de * tariff)) + 1e-9:
                ctx.violate("C05", "payment-not-at-tariff", f"{ev['vid']} paid {pay} for {de} at tariff {tariff} (= {de*tariff}) on {ev['sid']}/{ev['cid']}", vehicle=ev["vid"], station=ev["sid"])
            acc = self.table.accepted.get((ev["sid"], ev["cid"])) if self.table is not None else None
            if acc is not None:
                ctx.count("c05_charge_steps_priced_against_the_tariff_table")
                if any(acc):
                    ctx.count("c05_charge_steps_with_nonzero_table_price")
                if not any(abs(pay - de * p) <= 1e-9 * max(1.0, abs(de * p)) + 1e-9 for p in acc):
                    ctx.violate("C05", "payment-not-at-tariff-table-price", f"{ev['vid']} paid {pay} for {de} on {ev['sid']}/{ev['cid']} at t={ctx.t}; the tariff table says {sorted(acc)} per unit (= {[de * p for p in sorted(acc)]})", vehicle=ev["vid"], station=ev["sid"], plug=ev["cid"])
            if abs(disp - gained) > 1e-9 * max(1.0, abs(gained)) + 1e-12:
                ctx.violate("C05", "dispensed-differs-from-gained", f"station {ev['sid']} booked {disp} dispensed, vehicle {ev['vid']} gained {gained}", vehicle=ev["vid"], station=ev["sid"])
            if tariff:
                ctx.count("c05_priced_charge_steps")
            # charging through a base goes to the base's station
            if aname(v0) == "ChargingBase":
                b = ctx.prev.bases.get(v0.vehicle_state.base_id)
                ctx.count("c05_base_charge_steps")
                if b is not None and b.station_id != ev["sid"]:
                    ctx.violate("C05", "base-charge-at-wrong-station", f"{ev['vid']} charges at base {b.id} (station {b.station_id}) but pays {ev['sid']}", vehicle=ev["vid"])
            step_paid[ev["vid"]] += pay
            step_recv[ev["sid"]] += rcv
        for r in ctx.E:
            t = r.report_type.name
            d = r.report
            if t == "PICKUP_REQUEST_EVENT":
                self.fare[d["vehicle_id"]] += float(d["price"])
                ctx.count("c05_pickups")
        # fares seen in the state: a vehicle that starts carrying a request collected that request's value (whether or not a
        # pickup record was filed)
        for v in s.vehicles.values():
            p = prev.vehicles.get(v.id)
            if aname(v) == "OutOfService" and (p is None or getattr(p.vehicle_state, "instance_id", None) != v.vehicle_state.instance_id):
                # a vehicle that went out of service in this step may have arrived, taken its request on board and run dry all
                # within the step (also when it was out of service before and was sent to a request where it stands): such a
                # boarding cannot be seen in the state
                self.fare_state_unknown.add(v.id)
            if aname(v) == "ServicingTrip" and (p is None or getattr(p.vehicle_state, "instance_id", None) != v.vehicle_state.instance_id):
                r = v.vehicle_state.request
                self.fare_state[v.id] += float(prev.requests[r.id].value) if r.id in prev.requests else float(r.value)
                ctx.count("c05_boardings_seen_in_the_state")
        for vid, x in step_paid.items():
            self.paid[vid] += x
        for sid, x in step_recv.items():
            self.recv[sid] += x
        # balances
        for v in s.vehicles.values():
            exp = self.fare[v.id] - self.paid[v.id]
            if abs(v.balance - exp) > 1e-6 * max(1.0, abs(exp)):
                ctx.violate("C05", "vehicle-balance", f"vehicle {v.id} balance {v.balance} != fares {self.fare[v.id]} - payments {self.paid[v.id]}", vehicle=v.id)
            exp2 = self.fare_state[v.id] - self.paid[v.id]
            if v.id not in self.fare_state_unknown and abs(v.balance - exp2) > 1e-6 * max(1.0, abs(exp2)):
                ctx.violate("C05", "vehicle-balance-vs-requests-taken-on-board", f"vehicle {v.id} balance {v.balance} != value of the requests it took on board {self.fare_state[v.id]} - payments {self.paid[v.id]}", vehicle=v.id)
        for st in s.stations.values():
            exp = self.recv[st.id]
            if abs(st.balance - exp) > 1e-6 * max(1.0, abs(exp)):
                ctx.violate("C05", "station-balance", f"station {st.id} balance {st.balance} != payments received {exp}", station=st.id)
        # energy: fleet gain == station dispensed, per type, per step and cumulatively
        for et in EnergyType:
            g = sum(v.energy_gained.get(et, 0.0) for v in s.vehicles.values())
            dsp = sum(x.energy_dispensed.get(et, 0.0) for x in s.stations.values())
            g0 = sum(v.energy_gained.get(et, 0.0) for v in prev.vehicles.values())
            d0 = sum(x.energy_dispensed.get(et, 0.0) for x in prev.stations.values())
            if abs(g - dsp) > 1e-6 * max(1.0, abs(g)):
                ctx.violate("C05", f"energy-not-conserved-{et.name.lower()}", f"{et.name}: vehicles gained {g}, stations dispensed {dsp}")
            if abs((g - g0) - (dsp - d0)) > 1e-9 * max(1.0, abs(g - g0)) + 1e-9:
                ctx.violate("C05", f"step-energy-not-conserved-{et.name.lower()}", f"{et.name}: step gain {g-g0} vs dispensed {dsp-d0}")
            if g - g0 > 0:
                ctx.count(f"c05_steps_with_{et.name.lower()}_flow")
        ctx.count("c05_states_checked")
        if ctx.k % 40 == 39:
            self._summary(ctx)

    def _summary(self, ctx):
        """the totals of the compiled summary (polled during the run as well as at its end) are the ledger's totals"""
        import contextlib
        import io

        from nrel.hive.model.energy.energytype import EnergyType

        try:
            with contextlib.redirect_stdout(io.StringIO()):
                summ = ctx.rp.e.reporter.get_summary_stats(ctx.rp)
        except Exception as e:
            ctx.violate("C05", f"summary-raises-{type(e).__name__}", f"compiling the summary raised {type(e).__name__}: {e}")
            return
        if not summ:
            return
        s = ctx.s
        ctx.count("c05_summaries_compiled")
        want = {
            "total_kwh_dispensed": sum(x.energy_dispensed.get(EnergyType.ELECTRIC, 0.0) for x in s.stations.values()),
            "total_gge_dispensed": sum(x.energy_dispensed.get(EnergyType.GASOLINE, 0.0) for x in s.stations.values()),
            "station_revenue_dollars": sum(x.balance for x in s.stations.values()),
            "fleet_revenue_dollars": sum(v.balance for v in s.vehicles.values()),
        }
        for k, w in want.items():
            got = summ.get(k)
            if got is None:
                continue
            if abs(float(got) - w) > 1e-9 * max(1.0, abs(w)):
                ctx.violate("C05", f"summary-{k.replace('_', '-')}-differs-from-ledger", f"summary says {k} = {got}, stations / vehicles hold {w} (summary compiled {ctx.counters.get('c05_summaries_compiled', 0)} times so far)")

    def finish(self, ctx):
        self._summary(ctx)
        self._summary(ctx)
