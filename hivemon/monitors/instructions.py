"""C09 - instructions apply all-or-nothing, one per vehicle per step (atomicity + precedence oracles)."""
from __future__ import annotations

import collections
from typing import Any, Dict, List, Optional, Tuple

from hivemon import hooks
from hivemon.fingerprint import diff_states, fp_state
from hivemon.gen.controllers import EXPECTED_ACTIVITY, INSTR_NAME
from hivemon.monitors.base import Monitor, aname
from hivemon.monitors.invariants import check_c02, check_c17


def instr_kind(i) -> str:
    return INSTR_NAME.get(type(i), type(i).__name__)


def target_matches(i, v, sim) -> bool:
    vs = v.vehicle_state
    k = instr_kind(i)
    n = type(vs).__name__
    if k == "DispatchTrip":
        return n == "DispatchTrip" and vs.request_id == i.request_id
    if k == "DispatchStation":
        return (n == "DispatchStation" and vs.station_id == i.station_id and vs.charger_id == i.charger_id) or (
            n == "ChargingStation" and vs.station_id == i.station_id and vs.charger_id == i.charger_id
        )
    if k == "ChargeStation":
        return n == "ChargingStation" and vs.station_id == i.station_id and vs.charger_id == i.charger_id
    if k == "ChargeBase":
        return n == "ChargingBase" and vs.base_id == i.base_id and vs.charger_id == i.charger_id
    if k == "DispatchBase":
        return n == "DispatchBase" and vs.base_id == i.base_id
    if k == "ReserveBase":
        return n == "ReserveBase" and vs.base_id == i.base_id
    if k == "Reposition":
        return n == "Repositioning"
    if k == "Idle":
        return n == "Idle"
    if k == "OutOfService":
        return n == "OutOfService"
    return False


def classify_single(before, after, i) -> Tuple[str, List[Dict[str, Any]]]:
    """'accepted' | 'rejected-clean' | 'rejected-dirty' | 'wrong-activity' for one instruction applied to `before`."""
    v1 = before.vehicles.get(i.vehicle_id)
    v2 = after.vehicles.get(i.vehicle_id)
    if v1 is None:
        same = fp_state(before, ids=True) == fp_state(after, ids=True)
        return ("rejected-clean" if same else "rejected-dirty"), ([] if same else diff_states(before, after, ids=True))
    entered = v2 is not None and v2.vehicle_state.instance_id != v1.vehicle_state.instance_id
    if entered:
        if target_matches(i, v2, after):
            return "accepted", []
        return "wrong-activity", [{"was": repr(v1.vehicle_state)[:200], "now": repr(v2.vehicle_state)[:200]}]
    same = fp_state(before, ids=True) == fp_state(after, ids=True)
    if same:
        return "rejected-clean", []
    return "rejected-dirty", diff_states(before, after, ids=True)


def check_single(ctx_violate, ctx_count, before, after, i, prefix="c09"):
    """shared by the in-run monitor and the systematic driver. returns the classification."""
    kind, diff = classify_single(before, after, i)
    v1 = before.vehicles.get(i.vehicle_id)
    frm = aname(v1) if v1 is not None else "missing-vehicle"
    ik = instr_kind(i)
    ctx_count(f"{prefix}_instructions")
    if kind == "accepted":
        ctx_count(f"{prefix}_accepted")
        # all side effects present: the counters still match the vehicles, the assignment records are true
        b2, _ = check_c02(before)
        if not b2:
            a2, _ = check_c02(after)
            for mech, msg, w in a2[:2]:
                ctx_violate("C09", f"accepted-with-partial-side-effects:{mech}", f"{ik} from {frm} accepted but {msg}", instruction=repr(i), **w)
        if not check_c17(before):
            for mech, msg, w in check_c17(after)[:2]:
                ctx_violate("C09", f"accepted-with-partial-side-effects:{mech}", f"{ik} from {frm} accepted but {msg}", instruction=repr(i), **w)
    elif kind == "rejected-clean":
        ctx_count(f"{prefix}_rejected")
    elif kind == "rejected-dirty":
        ctx_count(f"{prefix}_rejected")
        what = ",".join(sorted({str(d["what"][0]) if d["what"][0] != "field" else str(d["what"][1]) for d in diff}))
        ctx_violate("C09", f"rejected-but-changed:{ik}-from-{frm}:{what}", f"{ik} for {i.vehicle_id} (was {frm}) was rejected but the simulation changed: {what}", instruction=repr(i), diff=diff)
    else:
        ctx_violate("C09", f"entered-other-activity:{ik}-from-{frm}", f"{ik} for {i.vehicle_id} left it in an activity that is not the instructed one", instruction=repr(i), diff=diff)
    return kind


class C09(Monitor):
    prop = "C09"
    hooks = ("apply", "driver")

    def start(self, ctx):
        self.real_apply = hooks.real_apply_instructions()

    def on_step(self, ctx):
        env = ctx.env
        batches = ctx.H.get("apply", [])
        if len(batches) != 1:
            ctx.violate("C09", "instructions-applied-in-several-batches", f"apply_instructions ran {len(batches)} times in one step")
        saved = list(env.reporter.reports)
        try:
            for b in batches:
                self._atomicity(ctx, b)
        finally:
            env.reporter.reports[:] = saved
        if batches:
            self._precedence(ctx, batches[0])
        ctx.count("c09_steps")

    def _atomicity(self, ctx, b):
        before, ins, after = b["before"], b["instructions"], b["after"]
        T = before
        for i in ins:
            T2 = self.real_apply(T, ctx.env, (i,))
            kind = check_single(ctx.violate, ctx.count, T, T2, i)
            v1 = T.vehicles.get(i.vehicle_id)
            ctx.seen("c09_triples", f"{aname(v1) if v1 else None}|{instr_kind(i)}|{kind}")
            T = T2
        if fp_state(T, ids=False) != fp_state(after, ids=False):
            ctx.violate("C09", "batch-differs-from-one-by-one", "applying the step's instructions together gave a different state than applying them one at a time", diff=diff_states(T, after, ids=False), instructions=[repr(i) for i in ins][:8])
        if len(ins) > 1:
            ctx.count("c09_multi_instruction_batches")

    def _precedence(self, ctx, b):
        # "generated last" is meant in the configured order of the generators: they must be asked in that order, every step
        called = [name for name, t, ins, sim in ctx.gen_log]
        want = list(getattr(ctx, "gen_names", called))
        if called != want:
            ctx.violate("C09", "generators-asked-out-of-configured-order", f"step {ctx.k}: generators were asked in the order {called}, configured order is {want}")
        elif len(want) > 1:
            ctx.count("c09_generator_order_checks")
        log: List[Tuple[str, Any]] = []
        for name, t, ins, sim in ctx.gen_log:
            for i in ins:
                log.append((f"gen:{name}", i))
        for ev in ctx.H.get("driver_instruction", []):
            if ev["instruction"] is not None:
                log.append(("driver", ev["instruction"]))
        exp: Dict[str, Tuple[str, Any]] = {}
        n_by = collections.Counter()
        for src, i in log:
            exp[i.vehicle_id] = (src, i)
            n_by[i.vehicle_id] += 1
        got_list = list(b["instructions"])
        got = {i.vehicle_id: i for i in got_list}
        if len(got) != len(got_list):
            dup = [v for v, c in collections.Counter(i.vehicle_id for i in got_list).items() if c > 1]
            ctx.violate("C09", "two-instructions-for-one-vehicle", f"vehicles {dup} received more than one instruction in one step")
        for vid, (src, i) in exp.items():
            ctx.count("c09_winners_checked")
            if n_by[vid] > 1:
                ctx.count("c09_contested_vehicles")
            if src == "driver" and n_by[vid] > 1:
                ctx.count("c09_driver_overrides")
            g = got.get(vid)
            if g is None:
                ctx.violate("C09", "proposed-instruction-dropped", f"{vid}: last proposal {i!r} (from {src}) was not applied", vehicle=vid)
            elif g != i:
                ctx.violate("C09", f"wrong-winner-expected-{src.split(':')[0]}", f"{vid}: applied {g!r} but the last proposal was {i!r} (from {src})", vehicle=vid, proposals=[f"{s}:{x!r}" for s, x in log if x.vehicle_id == vid][:6])
        for vid in got:
            if vid not in exp:
                ctx.violate("C09", "instruction-from-nowhere", f"{vid}: applied {got[vid]!r} but no generator or driver proposed it", vehicle=vid)
        # instruction reports = the applied batch
        rep = [r.report for r in ctx.E if r.report_type.name == "INSTRUCTION"]
        if len(rep) != len(got_list):
            ctx.violate("C09", "instruction-reports-differ-from-batch", f"{len(rep)} instruction reports for a batch of {len(got_list)}")
