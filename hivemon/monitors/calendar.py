"""C11 - timed inputs take effect exactly once, at the right step (calendar model computed from the input spec)."""
from __future__ import annotations

import collections
import math
from typing import Any, Dict, List, Optional, Set, Tuple

import h3

from hivemon.monitors.base import Monitor


class TariffModel:
    """the tariff table of the input spec read as a calendar: which prices may be in force for (station, plug) in the step
    that starts at t_k. Rows with time < t_k not consumed by an earlier step form the step's window; where several rows of
    one window name the same plug of a station (nested regions) any of them is acceptable."""

    def __init__(self, spec, sim):
        self.prices = spec.get("prices")
        self.rows = list(self.prices["rows"]) if self.prices else []
        self.by = (self.prices or {}).get("by", "station")
        self.geo = {sid: st.geoid for sid, st in sim.stations.items()}
        self.plugs = {s["id"]: [p["charger"] for p in s["plugs"]] for s in spec["stations"]}
        self.accepted: Dict[Tuple[str, str], Set[float]] = {(sid, c): {0.0} for sid, cs in self.plugs.items() for c in cs}
        self.row_i = 0

    def names(self, key: str, sid: str) -> bool:
        if key == sid:
            return True
        if self.by == "station":
            return False
        try:
            res = h3.h3_get_resolution(key)
        except Exception:
            return False
        g = self.geo.get(sid)
        return g is not None and res <= h3.h3_get_resolution(g) and h3.h3_to_parent(g, res) == key

    def advance(self, tk: int):
        per_key: Dict[str, Dict[str, float]] = {}
        while self.row_i < len(self.rows) and self.rows[self.row_i][0] < tk:
            t, key, c, p = self.rows[self.row_i]
            per_key.setdefault(key, {})[c] = p
            self.row_i += 1
        for (sid, c) in self.accepted:
            cands = {prices[c] for key, prices in per_key.items() if c in prices and self.names(key, sid)}
            if cands:
                self.accepted[(sid, c)] = cands


class C11(Monitor):
    prop = "C11"

    def start(self, ctx):
        spec = ctx.spec
        self.dt = spec["sim"]["dt"]
        self.t0 = spec["sim"]["start"]
        self.timeout = spec["sim"]["timeout"]
        self.has_fleets = bool(spec.get("fleets"))
        self.reqs = {r["id"]: r for r in spec["requests"]}
        self.added: Dict[str, int] = {}
        self.cancelled: Dict[str, int] = {}
        self.picked: Set[str] = set()
        # expected admission step per request (None = never)
        self.exp_add: Dict[str, Optional[int]] = {}
        self.optional: Set[str] = set()  # fail the fleet-membership admission rule: the property is silent about them
        for r in spec["requests"]:
            d = r["t"]
            k = max(0, math.floor((d - self.t0) / self.dt) + 1)  # first k with t_k > d
            tk = self.t0 + k * self.dt
            rule = bool(r.get("fleet")) == self.has_fleets
            self.exp_add[r["id"]] = k if (d + self.timeout > tk) else None
            if not rule:
                self.optional.add(r["id"])
        # tariffs
        self.prices = spec.get("prices")
        self.rows = list(self.prices["rows"]) if self.prices else []
        self.price: Dict[Tuple[str, str], float] = collections.defaultdict(float)
        self.geo = {s["id"]: None for s in spec["stations"]}
        self.plugs = {s["id"]: [p["charger"] for p in s["plugs"]] for s in spec["stations"]}
        for sid, st in ctx.s.stations.items():
            self.geo[sid] = st.geoid
        self.row_i = 0

    def _names(self, key: str, sid: str) -> bool:
        if self.prices.get("by", "station") == "station":
            return key == sid
        if key == sid:
            return True
        try:
            res = h3.h3_get_resolution(key)
        except Exception:
            return False
        g = self.geo.get(sid)
        # a region finer than the station's own cell cannot enclose it (the code's lookup fails and the key is ignored)
        return g is not None and res <= h3.h3_get_resolution(g) and h3.h3_to_parent(g, res) == key

    def on_step(self, ctx):
        k, tk = ctx.k, ctx.t
        s = ctx.s
        if tk != self.t0 + k * self.dt:
            ctx.violate("C11", "clock-off-grid", f"step {k} started at {tk}, expected {self.t0 + k*self.dt}")
        for rid in ctx.injected_now:
            # handed in by a client between two calls (no admission record exists for it): from now on it is a waiting request
            # like any other, to be cancelled in the first step that starts at or after departure + timeout
            self.reqs[rid] = {"id": rid, "t": ctx.injected_departure[rid]}
            self.added[rid] = k
            ctx.count("c11_requests_handed_in_between_calls")
        adds, cancels = [], []
        for r in ctx.E:
            t = r.report_type.name
            if t == "ADD_REQUEST_EVENT":
                adds.append(r.report["request_id"])
            elif t == "CANCEL_REQUEST_EVENT":
                cancels.append(r.report["request_id"])
            elif t == "PICKUP_REQUEST_EVENT":
                self.picked.add(r.report["request_id"])
        for rid in adds:
            ctx.count("c11_admissions")
            if rid in self.added:
                ctx.violate("C11", "admitted-twice", f"request {rid} admitted in step {self.added[rid]} and again in step {k}", request=rid)
                continue
            self.added[rid] = k
            exp = self.exp_add.get(rid)
            if exp is None:
                r = self.reqs.get(rid, {})
                ctx.violate("C11", "admitted-but-should-not", f"request {rid} (departure {r.get('t')}, fleet {r.get('fleet')}) admitted in step {k} (t={tk}) although it was expired or not admissible", request=rid, timeout=self.timeout)
            elif exp != k:
                ctx.violate("C11", "admitted-in-wrong-step", f"request {rid} (departure {self.reqs[rid]['t']}) admitted in step {k} (t={tk}), expected step {exp}", request=rid, dt=self.dt, start=self.t0)
        for rid, exp in self.exp_add.items():
            if exp == k and rid not in self.added and rid in self.optional:
                self.added[rid] = -1
            elif exp == k and rid not in self.added:
                ctx.violate("C11", "not-admitted", f"request {rid} (departure {self.reqs[rid]['t']}) not admitted in step {k} (t={tk})", request=rid, dt=self.dt, start=self.t0, timeout=self.timeout)
                self.added[rid] = -1
            elif exp is None and self.reqs[rid]["t"] < tk:
                pass
        for rid in cancels:
            ctx.count("c11_cancellations")
            if rid in self.cancelled:
                ctx.violate("C11", "cancelled-twice", f"request {rid} cancelled again in step {k}", request=rid)
                continue
            self.cancelled[rid] = k
            r = self.reqs.get(rid)
            if r is not None:
                kc = max(0, math.ceil((r["t"] + self.timeout - self.t0) / self.dt))  # first k with t_k >= d + timeout
                if kc != k:
                    ctx.violate("C11", "cancelled-in-wrong-step", f"request {rid} (departure {r['t']}, timeout {self.timeout}) cancelled in step {k} (t={tk}), expected step {kc}", request=rid, dt=self.dt, start=self.t0)
        # requests that should have been cancelled by now and were not picked up
        for rid, ka in self.added.items():
            if ka < 0 or rid in self.cancelled or rid in self.picked:
                continue
            r = self.reqs[rid]
            if tk >= r["t"] + self.timeout:
                ctx.violate("C11", "not-cancelled", f"request {rid} (departure {r['t']}, timeout {self.timeout}) still waiting in step {k} (t={tk})", request=rid)
                self.cancelled[rid] = -1
        # --- tariffs: rows with time < t_k that were not consumed yet form this step's window
        if self.prices:
            window: List[Any] = []
            while self.row_i < len(self.rows) and self.rows[self.row_i][0] < tk:
                window.append(self.rows[self.row_i])
                self.row_i += 1
            per_key: Dict[str, Dict[str, float]] = {}
            for t, key, c, p in window:
                per_key.setdefault(key, {})[c] = p
            for sid, st in s.stations.items():
                for c in self.plugs.get(sid, []):
                    cands = {prices[c] for key, prices in per_key.items() if c in prices and self._names(key, sid)}
                    got = st.state[c].price_per_kwh if c in st.state else None
                    ctx.count("c11_tariff_readings")
                    if got is None:
                        continue
                    if cands:
                        ctx.count("c11_tariff_changes")
                        if not any(abs(got - x) < 1e-12 for x in cands):
                            ctx.violate("C11", "price-entry-not-applied", f"station {sid} plug {c}: price {got} in step {k}, rows of this window say {sorted(cands)}", station=sid, plug=c, window=[list(map(str, w)) for w in window][:6])
                        else:
                            self.price[(sid, c)] = got
                            if len(cands) > 1:
                                ctx.count("c11_contested_prices")
                    else:
                        if abs(got - self.price[(sid, c)]) > 1e-12:
                            ctx.violate("C11", "price-changed-without-entry", f"station {sid} plug {c}: price {got} in step {k} but no entry names it (was {self.price[(sid,c)]})", station=sid, plug=c, window=[list(map(str, w)) for w in window][:6])
                            self.price[(sid, c)] = got
            if window:
                ctx.count("c11_price_windows")
                if len({w[1] for w in window}) < len(self.plugs):
                    ctx.count("c11_partial_price_windows")
        else:
            for sid, st in s.stations.items():
                for c, cs in st.state.items():
                    ctx.count("c11_tariff_readings")
                    if cs.price_per_kwh != 0.0:
                        ctx.violate("C11", "default-price-not-zero", f"station {sid} plug {c}: price {cs.price_per_kwh} without a price file")
        ctx.count("c11_steps")

    def finish(self, ctx):
        ctx.count("c11_requests_in_file", len(self.reqs))
        ctx.count("c11_expected_non_admissions", sum(1 for v in self.exp_add.values() if v is None))
