"""C18 - charging queues are first-come first-served (join step observed, never read from enqueue_time)."""
from __future__ import annotations

from typing import Dict, Tuple

from hivemon.monitors.base import Monitor, aname


def queues(s) -> Dict[str, Tuple[str, str, object]]:
    return {
        v.id: (v.vehicle_state.station_id, v.vehicle_state.charger_id, v.vehicle_state.instance_id)
        for v in s.vehicles.values()
        if aname(v) == "ChargeQueueing"
    }


class C18(Monitor):
    prop = "C18"

    def start(self, ctx):
        self.join: Dict[str, Tuple[Tuple, int]] = {}

    def on_step(self, ctx):
        s, prev, k = ctx.s, ctx.prev, ctx.k
        qp, qn = queues(prev), queues(s)
        for vid, key in qn.items():
            if self.join.get(vid, (None, None))[0] != key:
                self.join[vid] = (key, k)
                ctx.count("c18_joins")
        for vid, key in qp.items():
            v = s.vehicles.get(vid)
            if v is None:
                continue
            if aname(v) == "ChargingStation" and (v.vehicle_state.station_id, v.vehicle_state.charger_id) == key[:2]:
                ctx.count("c18_grants")
                mech = ctx.env.mechatronics.get(v.mechatronics_id)
                if mech is not None and mech.is_full(prev.vehicles[vid]):
                    ctx.count("c18_grants_to_full_vehicles")
                waiting = [w for w, kk in qp.items() if w != vid and kk[:2] == key[:2] and qn.get(w) == kk]
                if waiting:
                    ctx.count("c18_grants_with_others_waiting")
                jv = self.join.get(vid, (None, -1))[1]
                if len({kk[1] for kk in qp.values() if kk[0] == key[0]}) > 1:
                    ctx.count("c18_grants_at_a_station_with_two_queues")
                for w in waiting:
                    jw = self.join.get(w, (None, -1))[1]
                    if (k - min(jw, jv)) * ctx.dt >= 86400 and jw != jv:
                        ctx.count("c18_overtake_opportunities_after_more_than_a_day_of_waiting")
                    if jw != jv:
                        ctx.count("c18_overtake_opportunities")
                    if jw < jv:
                        ctx.violate("C18", "overtaken", f"{vid} (joined step {jv}) got a {key[1]} plug at {key[0]} while {w} (joined step {jw}) is still waiting", granted=vid, left_waiting=w, station=key[0], plug=key[1])
                    elif jw == jv:
                        ctx.count("c18_tie_opportunities")
                        if w < vid:
                            ctx.violate("C18", "tie-break-by-id", f"{vid} and {w} joined in step {jv}; {vid} got the plug although {w} has the smaller id", granted=vid, left_waiting=w)
            elif qn.get(vid) != key:
                ctx.count("c18_abandonments")
        ctx.count("c18_states_checked")
        ctx.count("c18_queue_len_sum", len(qn))
