from __future__ import annotations


class Monitor:
    prop = "?"
    hooks: tuple = ()

    def start(self, ctx):
        pass

    def on_step(self, ctx):
        pass

    def finish(self, ctx):
        pass


def aname(v) -> str:
    """activity name of a vehicle."""
    return type(v.vehicle_state).__name__


def grants(entity, vehicle) -> bool:
    """own membership predicate: entity without membership is open to all, otherwise a common fleet is needed."""
    em = entity.membership.memberships
    return len(em) == 0 or len(em & vehicle.membership.memberships) > 0


TRAVELLING = ("DispatchTrip", "ServicingTrip", "DispatchStation", "DispatchBase", "Repositioning")
ALL_ACTIVITIES = (
    "Idle",
    "Repositioning",
    "DispatchTrip",
    "ServicingTrip",
    "DispatchStation",
    "DispatchBase",
    "ChargingStation",
    "ChargingBase",
    "ChargeQueueing",
    "ReserveBase",
    "OutOfService",
)
