"""C06 - continuous movement, no faster than the road allows (oracle over move/traverse hook frames + states)."""
from __future__ import annotations

from typing import Any, Dict, List

import h3

from hivemon.monitors.base import Monitor, aname, TRAVELLING


def nz(route):
    """links that carry road (start != end); traverse_up_to silently drops the others once reached."""
    return [l for l in route if l.start != l.end]


def collapse(ids: List[str]) -> List[str]:
    out: List[str] = []
    for i in ids:
        if not out or out[-1] != i:
            out.append(i)
    return out


def gc_km(a, b) -> float:
    return h3.point_dist(h3.h3_to_geo(a), h3.h3_to_geo(b), unit="km")


class C06(Monitor):
    prop = "C06"
    hooks = ("move",)

    def start(self, ctx):
        self.journeys: Dict[str, Dict[str, Any]] = {}  # vid -> {"instance", "route0", "pieces"}
        self.arrived: Dict[str, Any] = {}  # vid -> instance id that had an empty route after the previous step
        self.edge = h3.edge_length(int(ctx.s.sim_h3_location_resolution), "km")
        # what the road allows comes from the inputs: on generated street networks every link's speed in the loaded link table
        # must be the speed the network file gives that street, or network.default_speed_kmph where the file gives none
        net = (ctx.spec.get("network") or {}) if isinstance(ctx.spec, dict) else {}
        if net.get("type") == "grid" and hasattr(ctx.s.road_network, "link_helper"):
            from hivemon.gen import graph as G

            dflt = float(net.get("default_speed_kmph", 40.0))
            want = {}
            for a, b, d in G.grid(net).edges(data=True):
                want.setdefault(f"{a}-{b}", float(d.get("speed_kmph", dflt)))
            for lid, l in ctx.s.road_network.link_helper.links.items():
                ctx.count("c06_link_speeds_compared_with_the_network_file")
                if lid in want and abs(l.speed_kmph - want[lid]) > 1e-9:
                    ctx.violate("C06", "link-speed-differs-from-the-network-file", f"link {lid} is loaded with {l.speed_kmph} km/h, the network file (with network.default_speed_kmph = {dflt}) says {want[lid]}", link=lid)
                    break

    def on_step(self, ctx):
        s, prev = ctx.s, ctx.prev
        net = s.road_network
        dt = ctx.dt
        frames_by_vid: Dict[str, List[Dict[str, Any]]] = {}
        for fr in ctx.H.get("move", []):
            frames_by_vid.setdefault(fr["vid"], []).append(fr)
        for vid, frames in frames_by_vid.items():
            if len(frames) > 1:
                ctx.violate("C06", "moved-twice-in-one-step", f"{vid} was moved {len(frames)} times in one step", vehicle=vid)
            for fr in frames:
                self._check_frame(ctx, fr, net, dt)
        for v in s.vehicles.values():
            p = prev.vehicles.get(v.id)
            if p is None:
                continue
            frames = [f for f in frames_by_vid.get(v.id, []) if f.get("after") is not None and f.get("traverse")]
            exp_km = 0.0
            for f in frames:
                err, res = f["traverse"]["result"]
                if res is not None and not f["oos"]:
                    exp_km += sum(l.distance_km for l in res.experienced_route)
            # what move() produced for this vehicle is what the step leaves behind (nothing that happens to another vehicle in
            # the same step takes it back)
            if len(frames) == 1 and not frames[0]["oos"]:
                aft = frames[0]["after"]
                err, res = frames[0]["traverse"]["result"]
                if res is not None and res.experienced_route and aft is not None:
                    ctx.count("c06_move_results_compared_with_state")
                    if v.position != aft.position or abs(v.distance_traveled_km - aft.distance_traveled_km) > 1e-12:
                        ctx.violate("C06", "move-result-not-in-the-state", f"{v.id} was moved to {aft.position} (odometer {aft.distance_traveled_km}) but the step leaves it at {v.position} (odometer {v.distance_traveled_km})", vehicle=v.id, activity=aname(p))
            d_odo = v.distance_traveled_km - p.distance_traveled_km
            if abs(d_odo - exp_km) > 1e-9 * max(1.0, exp_km):
                ctx.violate("C06", "odometer-differs-from-driven", f"{v.id} odometer grew by {d_odo} km but drove {exp_km} km", vehicle=v.id, activity=aname(p))
            if v.geoid != p.geoid or v.position != p.position:
                ctx.count("c06_position_changes")
                if not frames or exp_km <= 0 and v.geoid != p.geoid:
                    ctx.violate("C06", "position-changed-without-driving", f"{v.id} went from {p.position} to {v.position} without a driven route", vehicle=v.id)
            # the route kept in the state only ever shrinks from the front: within one journey it is a remainder of what it was a
            # step ago, with the same destination, and it is used up only where that route ended
            if aname(v) in TRAVELLING and aname(p) == aname(v) and getattr(v.vehicle_state, "instance_id", 0) == getattr(p.vehicle_state, "instance_id", 1):
                r0, r1 = nz(p.vehicle_state.route), nz(v.vehicle_state.route)
                if r0:
                    ctx.count("c06_stored_routes_compared_with_the_previous_step")
                    if r1:
                        i0, i1 = collapse([l.link_id for l in r0]), collapse([l.link_id for l in r1])
                        if i0[len(i0) - len(i1):] != i1 or r1[-1].end != r0[-1].end:
                            ctx.violate("C06", "stored-route-not-a-remainder", f"{v.id} ({aname(v)}): route {i1[:6]}..->{r1[-1].end} is not a remainder of the previous step's {i0[:6]}..->{r0[-1].end}", vehicle=v.id)
                    elif v.geoid != r0[-1].end and r0[0].start != r0[-1].end:
                        ctx.violate("C06", "route-dropped-before-its-end", f"{v.id} ({aname(v)}) has no route left but stands at {v.geoid}, the route it had a step ago ends at {r0[-1].end}", vehicle=v.id, activity=aname(v))
            # arrival: whoever stood with an exhausted route after the previous step has left that activity now
            if not ctx.hostile and v.id in self.arrived:
                inst = self.arrived.pop(v.id)
                ctx.count("c06_arrivals")
                if getattr(v.vehicle_state, "instance_id", None) == inst:
                    ctx.violate("C06", f"stays-after-arriving-{aname(v).lower()}", f"{v.id} arrived (route exhausted) but is still {aname(v)} one step later", vehicle=v.id)
            else:
                self.arrived.pop(v.id, None)
            if aname(v) in TRAVELLING and len(v.vehicle_state.route) == 0:
                self.arrived[v.id] = v.vehicle_state.instance_id
                if aname(v) == "DispatchStation":
                    mech = ctx.env.mechatronics.get(v.mechatronics_id)
                    if mech is not None and mech.is_full(v):
                        ctx.count("c06_arrivals_at_station_with_full_battery")
        ctx.count("c06_states_checked")

    def _check_frame(self, ctx, fr, net, dt):
        vid = fr["vid"]
        b, a, tr = fr["before"], fr["after"], fr["traverse"]
        if b is None or tr is None:
            return
        err, res = tr["result"]
        route = tr["route"]
        if err is not None or res is None:
            return
        if aname(b) not in TRAVELLING:
            ctx.violate("C06", "moved-while-not-travelling", f"{vid} was moved while {aname(b)}", vehicle=vid)
        exp, rem = res.experienced_route, res.remaining_route
        ctx.count("c06_moves")
        if tr["duration"] != dt:
            ctx.violate("C06", "traverse-duration-differs-from-step", f"{vid} traversed for {tr['duration']}s in a {dt}s step", vehicle=vid)
        if not exp:
            if route and route[0].start != route[-1].end and nz(route):
                ctx.violate("C06", "no-progress", f"{vid} has a route of {len(route)} links but drove nothing", vehicle=vid)
            return
        if fr["oos"]:
            ctx.count("c06_ran_dry")
            return  # stopped for lack of energy: nothing was driven (checked by C04)
        if a is None:
            return
        rn, en, mn = nz(route), nz(exp), nz(rem)
        # --- speed bound
        split = bool(rem) and rem[0].link_id == exp[-1].link_id and rem[0].start == exp[-1].end
        orig_last = rn[len(en) - 1] if 0 < len(en) <= len(rn) else None
        if split and orig_last is not None and exp[-1].end == orig_last.end:
            split = False
        full = exp[:-1] if split else exp
        tfull = 0
        for l in full:
            gt = net.link_from_link_id(l.link_id)
            if gt is None or gt.speed_kmph <= 0:
                continue
            d_km = l.distance_km
            if l.start == gt.start and l.end == gt.end and l.start != l.end:
                # driven from junction to junction: the road covered is the network's length of that link (bends included),
                # whatever the route entry says
                ctx.count("c06_links_driven_end_to_end")
                if abs(l.distance_km - gt.distance_km) > 1e-9 * max(1.0, gt.distance_km):
                    ctx.violate("C06", "driven-link-length-differs-from-network", f"{vid} drove link {l.link_id} from end to end: the route books {l.distance_km} km, the network says {gt.distance_km} km", vehicle=vid, link=l.link_id)
                d_km = gt.distance_km
            tfull += int(d_km / gt.speed_kmph * 3600)
        if tfull > dt:
            ctx.violate("C06", "faster-than-links-allow", f"{vid}: fully driven links need {tfull}s > step {dt}s", vehicle=vid, links=[l.link_id for l in full][:6])
        if split:
            ctx.count("c06_split_moves")
            l = exp[-1]
            gt = net.link_from_link_id(l.link_id)
            if gt is not None and orig_last is not None:
                # partial distances are measured on the straight line between the cells; a link whose recorded
                # length is below that line (data imprecision) stretches the partial distance by the same factor
                stretch = max(1.0, gc_km(orig_last.start, orig_last.end) / orig_last.distance_km) if orig_last.distance_km > 0 else 1.0
                allowed = gt.speed_kmph * (dt - tfull) / 3600.0 * stretch + 2 * self.edge
                if l.distance_km > allowed * (1 + 1e-9):
                    ctx.violate("C06", "partial-link-too-far", f"{vid}: drove {l.distance_km} km of link {l.link_id} in {dt - tfull}s at {gt.speed_kmph} km/h (allowed {allowed})", vehicle=vid)
        # --- junction and position
        if (a.position.link_id, a.position.geoid) != (exp[-1].link_id, exp[-1].end):
            ctx.violate("C06", "position-not-at-end-of-driven-part", f"{vid} ends the step at {a.position} but drove up to ({exp[-1].link_id},{exp[-1].end})", vehicle=vid)
        if rem and exp[-1].end != rem[0].start:
            ctx.violate("C06", "junction-mismatch", f"{vid}: driven part ends at {exp[-1].end}, remaining part starts at {rem[0].start}", vehicle=vid)
        for x, y in zip(exp, exp[1:]):
            if x.end != y.start and x.start != x.end and y.start != y.end:
                ctx.violate("C06", "driven-part-disconnected", f"{vid}: driven links do not join ({x.link_id}->{y.link_id})", vehicle=vid)
                break
        # --- driven ++ remaining == route before
        ids = collapse([l.link_id for l in en] + [l.link_id for l in mn])
        oid = collapse([l.link_id for l in rn])
        if ids != oid:
            ctx.violate("C06", "driven-plus-remaining-differs-from-route", f"{vid}: driven+remaining links {ids[:8]} != route {oid[:8]}", vehicle=vid)
        if exp[0].start != route[0].start:
            ctx.violate("C06", "route-start-changed", f"{vid}: driven part starts at {exp[0].start}, route started at {route[0].start}", vehicle=vid)
        last_end = rem[-1].end if rem else exp[-1].end
        if last_end != route[-1].end:
            ctx.violate("C06", "route-destination-changed", f"{vid}: route ended at {route[-1].end}, now ends at {last_end}", vehicle=vid)
        st_after = a.vehicle_state
        if hasattr(st_after, "route") and tuple(st_after.route) != tuple(rem):
            ctx.violate("C06", "stored-route-differs-from-remaining", f"{vid}: stored route differs from the remaining part of the traversal", vehicle=vid)
        # --- progress
        gt0 = net.link_from_link_id(rn[0].link_id) if rn else None
        if gt0 is not None and gt0.speed_kmph * dt / 3.6 >= 6000.0 * self.edge:  # at least ~6 cell edges per step (3 m at resolution 15)
            ctx.count("c06_progress_checks")
            progressed = len(mn) < len(rn) or (mn and gc_km(mn[0].start, mn[0].end) < gc_km(rn[0].start, rn[0].end) - 1e-12)
            if not progressed:
                ctx.violate("C06", "no-progress", f"{vid} has energy and a route but did not get closer ({len(rn)} links before, {len(mn)} after)", vehicle=vid)
        # --- journey bookkeeping: all driven parts of one journey reproduce the route it was entered with
        inst = getattr(b.vehicle_state, "instance_id", None)
        j = self.journeys.get(vid)
        if j is None or j["instance"] != inst:
            j = {"instance": inst, "route0": list(route), "pieces": []}
            self.journeys[vid] = j
        j["pieces"].extend(exp)
        if not mn:
            ctx.count("c06_journeys_completed")
            got = collapse([l.link_id for l in nz(j["pieces"])])
            want = collapse([l.link_id for l in nz(j["route0"])])
            if got != want:
                ctx.violate("C06", "journey-differs-from-entered-route", f"{vid}: links driven over the journey {got[:8]} != route entered with {want[:8]}", vehicle=vid)
            pcs = nz(j["pieces"])
            for x, y in zip(pcs, pcs[1:]):
                if x.end != y.start:
                    ctx.violate("C06", "journey-discontinuous", f"{vid}: journey pieces do not join at {x.end} / {y.start}", vehicle=vid)
                    break
            r0 = nz(j["route0"])
            if pcs and r0 and (pcs[0].start != r0[0].start or pcs[-1].end != r0[-1].end):
                ctx.violate("C06", "journey-ends-differ", f"{vid}: journey ran {pcs[0].start}->{pcs[-1].end}, route was {r0[0].start}->{r0[-1].end}", vehicle=vid)
            self.journeys.pop(vid, None)
