"""C08 - location indexes agree with the entities (reference model: recompute the eight maps from the entities)."""
from __future__ import annotations

from typing import Dict, List, Tuple

import h3

from hivemon.monitors.base import Monitor

PAIRS = (
    ("vehicles", "v_locations", "v_search"),
    ("requests", "r_locations", "r_search"),
    ("stations", "s_locations", "s_search"),
    ("bases", "b_locations", "b_search"),
)


def check_index(s) -> List[Tuple[str, str]]:
    out = []
    res = s.sim_h3_search_resolution
    for ents, loc, sea in PAIRS:
        el: Dict[str, set] = {}
        es: Dict[str, set] = {}
        for i, e in getattr(s, ents).items():
            if i != e.id:
                out.append((f"{ents}-key-differs-from-id", f"{ents}[{i}] holds entity {e.id}"))
            el.setdefault(e.geoid, set()).add(i)
            es.setdefault(h3.h3_to_parent(e.geoid, res), set()).add(i)
        for name, want, got in ((loc, el, getattr(s, loc)), (sea, es, getattr(s, sea))):
            gotd = {k: set(v) for k, v in got.items()}
            if gotd == want:
                continue
            for k in sorted(set(gotd) | set(want)):
                g, w = gotd.get(k), want.get(k)
                if g == w:
                    continue
                if g is not None and len(g) == 0:
                    out.append((f"{name}-empty-entry", f"{name}[{k}] is an empty set"))
                elif w is None:
                    out.append((f"{name}-stale-entry", f"{name}[{k}] = {sorted(g)} but no such entity is there"))
                elif g is None:
                    out.append((f"{name}-missing-entry", f"{name}[{k}] missing, expected {sorted(w)}"))
                else:
                    extra, miss = sorted(g - w), sorted(w - g)
                    if extra:
                        out.append((f"{name}-stale-entry", f"{name}[{k}] lists {extra} which are elsewhere"))
                    if miss:
                        out.append((f"{name}-missing-entry", f"{name}[{k}] lacks {miss}"))
                break
    return out


class C08(Monitor):
    prop = "C08"

    def start(self, ctx):
        self.fixed = {("stations", k): v.position for k, v in ctx.s.stations.items()}
        self.fixed.update({("bases", k): v.position for k, v in ctx.s.bases.items()})
        for mech, msg in check_index(ctx.s):
            ctx.violate("C08", mech, "initial state: " + msg)

    def on_step(self, ctx):
        s = ctx.s
        for mech, msg in check_index(s):
            ctx.violate("C08", mech, msg)
        ctx.count("c08_states_checked")
        ctx.count("c08_entities_checked", len(s.vehicles) + len(s.requests) + len(s.stations) + len(s.bases))
        moved = sum(1 for v in s.vehicles.values() if ctx.prev.vehicles.get(v.id) is not None and ctx.prev.vehicles[v.id].geoid != v.geoid)
        ctx.count("c08_vehicle_moves", moved)
        ctx.count("c08_request_churn", len(set(s.requests) ^ set(ctx.prev.requests)))
        for (kind, k), pos in self.fixed.items():
            e = getattr(s, kind).get(k)
            if e is None:
                ctx.violate("C08", f"{kind}-disappeared", f"{kind[:-1]} {k} disappeared")
            elif e.position != pos:
                ctx.violate("C08", f"{kind}-moved", f"{kind[:-1]} {k} moved from {pos} to {e.position}")
