"""C12 - the trip dispatcher returns a valid minimum-cost matching (own eligibility model + own optimum)."""
from __future__ import annotations

import collections
import itertools
from typing import Any, Dict, List, Optional, Tuple

import h3

from hivemon.monitors.base import Monitor, aname

MILE_TO_KM = 1.609344


def range_km(v, mech) -> float:
    if hasattr(mech, "nominal_watt_hour_per_mile"):
        from nrel.hive.model.energy.energytype import EnergyType

        return v.energy[EnergyType.ELECTRIC] / (mech.nominal_watt_hour_per_mile * 0.001) * MILE_TO_KM
    from nrel.hive.model.energy.energytype import EnergyType

    return v.energy[EnergyType.GASOLINE] * mech.nominal_miles_per_gallon * MILE_TO_KM


def optimum(V, R) -> int:
    if not V or not R:
        return 0
    cost = [[h3.h3_distance(v.geoid, r.geoid) for r in R] for v in V]
    nv, nr = len(V), len(R)
    k = min(nv, nr)
    if k <= 4 and max(nv, nr) <= 7:
        best = None
        if nv <= nr:
            for perm in itertools.permutations(range(nr), nv):
                c = sum(cost[i][perm[i]] for i in range(nv))
                best = c if best is None or c < best else best
        else:
            for perm in itertools.permutations(range(nv), nr):
                c = sum(cost[perm[j]][j] for j in range(nr))
                best = c if best is None or c < best else best
        return best
    import networkx as nx

    G = nx.DiGraph()
    G.add_node("s", demand=-k)
    G.add_node("t", demand=k)
    for i in range(nv):
        G.add_edge("s", ("v", i), capacity=1, weight=0)
        for j in range(nr):
            G.add_edge(("v", i), ("r", j), capacity=1, weight=int(cost[i][j]))
    for j in range(nr):
        G.add_edge(("r", j), "t", capacity=1, weight=0)
    return int(nx.min_cost_flow_cost(G))


def check_dispatch(sim, env, instructions, violate, count, seen=None):
    cfg = env.config.dispatcher
    fleets: List[Optional[str]] = sorted(f for f in env.fleet_ids if f is not None) if len(env.fleet_ids) > 0 else []
    passes: List[Optional[str]] = (fleets + [None]) if fleets else [None]
    # group proposals by the fleet of the request they name
    per: Dict[Optional[str], List[Any]] = collections.defaultdict(list)
    for i in instructions:
        if type(i).__name__ != "DispatchTripInstruction":
            violate("C12", "non-dispatch-instruction", f"dispatcher returned {type(i).__name__}")
            continue
        r = sim.requests.get(i.request_id)
        if r is None:
            violate("C12", "pairs-missing-request", f"dispatcher paired {i.vehicle_id} with request {i.request_id} which is not waiting")
            continue
        ms = sorted(r.membership.memberships)
        if not fleets:
            per[None].append(i)
        elif len(ms) == 0:
            per[None].append(i)
        elif len(ms) == 1:
            per[ms[0]].append(i)
        else:
            per["__multi__"].append(i)
    if per.get("__multi__"):
        count("c12_skipped_multi_fleet_requests")
        return
    for f in passes:
        V, border = [], False
        for v in sorted(sim.vehicles.values(), key=lambda v: v.id):
            name = aname(v).lower()
            if name not in cfg.valid_dispatch_states:
                continue
            if not v.driver_state.available:
                continue
            if f is not None and f not in v.membership.memberships:
                continue
            mech = env.mechatronics.get(v.mechatronics_id)
            if mech is None:
                continue
            rng = range_km(v, mech)
            for thr in (cfg.matching_range_km_threshold, cfg.base_charging_range_km_threshold):
                if abs(rng - thr) <= 1e-9 * max(1.0, abs(thr)):
                    border = True
            if name == "chargingbase" and rng < cfg.base_charging_range_km_threshold:
                continue
            if not rng > cfg.matching_range_km_threshold:
                continue
            V.append(v)
        if f is not None:
            R = [r for r in sim.requests.values() if not r.dispatched_vehicle and f in r.membership.memberships]
        elif fleets:
            R = [r for r in sim.requests.values() if not r.dispatched_vehicle and len(r.membership.memberships) == 0]
        else:
            R = [r for r in sim.requests.values() if not r.dispatched_vehicle]
        I = per.get(f, [])
        count("c12_passes")
        if border:
            count("c12_skipped_borderline_range")
            continue
        if V and R:
            count("c12_nontrivial_passes")
            count("c12_cells", len(V) * len(R))
            if seen is not None:
                seen("c12_shapes", f"{min(len(V),9)}x{min(len(R),9)}")
            if len(V) != len(R):
                count("c12_rectangular_passes")
        vids = {v.id for v in V}
        rids = {r.id for r in R}
        bad = False
        for i in I:
            if i.vehicle_id not in vids:
                v = sim.vehicles.get(i.vehicle_id)
                why = "unknown vehicle"
                if v is not None:
                    mech = env.mechatronics.get(v.mechatronics_id)
                    why = (
                        "driver off shift" if not v.driver_state.available else f"activity {aname(v)}" if aname(v).lower() not in cfg.valid_dispatch_states else f"not a member of fleet {f}" if f is not None and f not in v.membership.memberships else f"range {range_km(v, mech):.2f} km"
                    )
                mech_name = why.split(" ")[0] if v is None else ("off-shift" if not v.driver_state.available else "activity" if aname(v).lower() not in cfg.valid_dispatch_states else "non-member" if f is not None and f not in v.membership.memberships else "range")
                violate("C12", f"ineligible-vehicle-{mech_name}", f"fleet {f}: dispatcher paired {i.vehicle_id} ({why}) with {i.request_id}", vehicle=i.vehicle_id, request=i.request_id, fleet=f)
                bad = True
            if i.request_id not in rids:
                r = sim.requests.get(i.request_id)
                why = "already has a vehicle" if r is not None and r.dispatched_vehicle else "not of this fleet"
                violate("C12", f"ineligible-request-{why.replace(' ', '-')}", f"fleet {f}: dispatcher paired {i.vehicle_id} with {i.request_id} ({why})", vehicle=i.vehicle_id, request=i.request_id, fleet=f)
                bad = True
        if len({i.vehicle_id for i in I}) != len(I):
            violate("C12", "vehicle-paired-twice", f"fleet {f}: a vehicle appears in two pairs: {[ (i.vehicle_id,i.request_id) for i in I][:8]}", fleet=f)
            bad = True
        if len({i.request_id for i in I}) != len(I):
            violate("C12", "request-paired-twice", f"fleet {f}: a request appears in two pairs: {[ (i.vehicle_id,i.request_id) for i in I][:8]}", fleet=f)
            bad = True
        if bad:
            continue
        if len(I) != min(len(V), len(R)):
            violate("C12", "wrong-number-of-pairs", f"fleet {f}: {len(I)} pairs for {len(V)} eligible vehicles and {len(R)} eligible requests", fleet=f, vehicles=sorted(vids)[:10], requests=sorted(rids)[:10])
            continue
        if I:
            cost = sum(h3.h3_distance(sim.vehicles[i.vehicle_id].geoid, sim.requests[i.request_id].geoid) for i in I)
            opt = optimum(V, R)
            count("c12_optimum_checks")
            if cost != opt:
                violate("C12", "not-minimum-cost", f"fleet {f}: pairing costs {cost} cells, the optimum is {opt} ({len(V)}x{len(R)})", fleet=f, pairs=[(i.vehicle_id, i.request_id) for i in I][:10])


ALL_STATES = ("idle", "repositioning", "chargingbase", "reservebase", "chargingstation", "dispatchbase", "dispatchstation", "chargequeueing")


class C12(Monitor):
    prop = "C12"

    def start(self, ctx):
        import random

        self.rnd = random.Random(ctx.case.get("case_seed", 0) + 12)
        self.extra = int(ctx.opts.get("c12_extra", 0))

    def on_step(self, ctx):
        for name, t, ins, sim in ctx.gen_log:
            if name != "Dispatcher":
                continue
            ctx.count("c12_invocations")
            check_dispatch(sim, ctx.env, ins, ctx.violate, ctx.count, ctx.seen)
        # the real dispatcher on the reached state under other dispatcher settings (pure call, nothing is applied):
        # more activities made dispatchable, range thresholds around the charge levels present
        if self.extra and ctx.k % self.extra == 0:
            from nrel.hive.dispatcher.instruction_generator.dispatcher import Dispatcher

            env, s = ctx.env, ctx.s
            cfg = env.config.dispatcher
            ranges = sorted(range_km(v, env.mechatronics[v.mechatronics_id]) for v in s.vehicles.values() if v.mechatronics_id in env.mechatronics)
            for rep in range(2):
                states = tuple(sorted(self.rnd.sample(ALL_STATES, self.rnd.randint(1, len(ALL_STATES)))))
                thr = self.rnd.choice(ranges) + self.rnd.choice([-0.5, 0.0, 0.5]) if ranges and self.rnd.random() < 0.7 else self.rnd.choice([0.0, 5.0, 20.0, 60.0])
                cfg2 = cfg._replace(valid_dispatch_states=states, matching_range_km_threshold=max(0.0, thr), base_charging_range_km_threshold=self.rnd.choice([0.0, 20.0, 100.0, thr + 10]))
                env2 = env._replace(config=env.config._replace(dispatcher=cfg2))
                s2 = s
                if len(env.fleet_ids) > 0 and rep == 1 and s.requests:
                    # a co-simulation client may add requests of no fleet to a fleets scenario (the file reader
                    # refuses them, add_request_safe does not): turn some waiting requests - assigned ones
                    # included - into public ones through the public state operations
                    import dataclasses

                    from nrel.hive.model.membership import Membership
                    from nrel.hive.state.simulation_state import simulation_state_ops as sso
                    from returns.result import Failure

                    for r in s.get_requests():
                        if self.rnd.random() < 0.35:
                            res = sso.modify_request_safe(s2, dataclasses.replace(r, membership=Membership()))
                            if not isinstance(res, Failure):
                                s2 = res.unwrap()
                                ctx.count("c12_public_requests_in_fleet_states")
                                if r.dispatched_vehicle:
                                    ctx.count("c12_assigned_public_requests")
                # the settings in force are the environment's (a co-simulation client may replace them between calls);
                # every other invocation uses a dispatcher that was built with the old settings
                _, ins = Dispatcher(cfg2 if rep == 0 else cfg).generate_instructions(s2, env2)
                ctx.count("c12_direct_invocations")
                check_dispatch(s2, env2, ins, ctx.violate, ctx.count, ctx.seen)
                for st in states:
                    ctx.seen("c12_dispatchable_states", st)
