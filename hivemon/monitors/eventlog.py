"""C19 - the event log accounts for every state change (through the real EventfulHandler / StatsHandler)."""
from __future__ import annotations

import collections
import contextlib
import io
import json
import re
from datetime import datetime
from typing import Any, Dict, List

from hivemon.monitors.base import Monitor, aname

WAIT_RE = re.compile(r"(?:(-?\d+) days?, )?(\d+):(\d\d):(\d\d)(?:\.\d+)?")


def parse_wait(w: str):
    m = WAIT_RE.fullmatch(w)
    if not m:
        return None
    return (int(m.group(1) or 0) * 86400) + int(m.group(2)) * 3600 + int(m.group(3)) * 60 + int(m.group(4))


def is_iso(x: str) -> bool:
    try:
        datetime.fromisoformat(x)
        return True
    except Exception:
        return False


class C19(Monitor):
    prop = "C19"
    hooks = ("charge",)

    def start(self, ctx):
        from nrel.hive.reporting.handler.eventful_handler import EventfulHandler
        from nrel.hive.reporting.handler.stats_handler import StatsHandler

        hs = ctx.rp.e.reporter.handlers
        self.ev = next((h for h in hs if isinstance(h, EventfulHandler)), None)
        self.st = next((h for h in hs if isinstance(h, StatsHandler)), None)
        if self.ev is None or self.st is None:
            raise RuntimeError("C19 needs log_events and log_stats switched on")
        self.path = self.ev.log_file.name
        self.pos = 0
        self.odo = collections.Counter()
        self.gained = collections.Counter()
        self.adds = self.cancels = 0
        self.timeout = ctx.env.config.sim.request_cancel_time_seconds
        # the kinds of records the operator has switched on (log_sim_config); a clause about a kind applies when it is logged
        self.logged = {rt.name.lower() for rt in ctx.env.config.global_config.log_sim_config}

    def on_step(self, ctx):
        s, prev = ctx.s, ctx.prev
        self.ev.log_file.flush()
        with open(self.path) as f:
            f.seek(self.pos)
            chunk = f.read()
            self.pos = f.tell()
        by: Dict[str, List[Dict[str, Any]]] = collections.defaultdict(list)
        for line in chunk.splitlines():
            ctx.count("c19_lines")
            try:
                d = json.loads(line)
            except Exception:
                ctx.violate("C19", "unparsable-line", f"event.log line is not JSON: {line[:120]}")
                continue
            by[d.get("report_type", "?")].append(d)
        L = self.logged
        for kind in by:
            if kind not in L:
                ctx.violate("C19", "record-of-a-kind-that-is-not-logged", f"event.log holds a {kind} record although log_sim_config leaves that kind out")
        # --- parse-back of the fields the other clauses use
        for d in by["vehicle_move_event"]:
            self._num(ctx, d, "distance_km")
            self._iso(ctx, d, "sim_time_start")
        for d in by["vehicle_charge_event"]:
            self._num(ctx, d, "energy")
            self._num(ctx, d, "price")
        for d in by["station_load_event"]:
            self._num(ctx, d, "energy")
        # --- station load == sum of the step's charge events there
        load = {}
        for d in by["station_load_event"]:
            if d["station_id"] in load:
                ctx.violate("C19", "duplicate-station-load", f"two station load records for {d['station_id']} in one step")
            load[d["station_id"]] = float(d["energy"])
        chg = collections.Counter()
        for d in by["vehicle_charge_event"]:
            chg[d["station_id"]] += float(d["energy"])
            self.gained[d["vehicle_id"]] += float(d["energy"])
        # what the vehicles really took on at each station in this step (from the charge calls of the step, not from the log)
        took = collections.Counter()
        for fr in ctx.H.get("charge", []):
            if fr["err"] is None and fr["v0"] is not None and fr["v1"] is not None:
                took[fr["sid"]] += sum(fr["v1"].energy_gained.values()) - sum(fr["v0"].energy_gained.values())
        for sid in s.stations.keys() if "station_load_event" in L else ():
            ctx.count("c19_station_load_checks")
            if sid not in load:
                ctx.violate("C19", "missing-station-load", f"no station load record for {sid} in step {ctx.k}")
                continue
            if "vehicle_charge_event" in L and abs(load[sid] - chg.get(sid, 0.0)) > 1e-9 * max(1.0, abs(load[sid])):
                ctx.violate("C19", "station-load-differs-from-charge-events", f"station {sid}: load {load[sid]} but charge events sum to {chg.get(sid, 0.0)}", station=sid)
            if abs(load[sid] - took.get(sid, 0.0)) > 1e-9 * max(1.0, abs(load[sid])):
                ctx.violate("C19", "station-load-differs-from-energy-taken-on-there", f"station {sid}: load record {load[sid]} but vehicles took on {took.get(sid, 0.0)} there in this step (charge records logged: {'vehicle_charge_event' in L})", station=sid)
            if took.get(sid, 0.0) > 0:
                ctx.count("c19_station_loads_compared_with_energy_taken_on")
        for d in by["vehicle_move_event"]:
            self.odo[d["vehicle_id"]] += float(d["distance_km"])
        self.adds += len(by["add_request_event"])
        self.cancels += len(by["cancel_request_event"])
        # --- one-to-one with the state changes
        addev = {d["request_id"] for d in by["add_request_event"]} | set(ctx.injected_now)
        removed = (set(prev.requests) | addev) - set(s.requests)
        evs = [d["request_id"] for d in by["pickup_request_event"]] + [d["request_id"] for d in by["cancel_request_event"]]
        if {"add_request_event", "pickup_request_event", "cancel_request_event"} <= L and sorted(evs) != sorted(removed):
            missing = sorted(removed - set(evs))
            extra = sorted(set(evs) - removed)
            dup = [r for r, c in collections.Counter(evs).items() if c > 1]
            if missing:
                ctx.violate("C19", "request-left-without-record", f"requests {missing[:4]} left the simulation without a pickup/cancel record", requests=missing[:4])
            if extra:
                ctx.violate("C19", "record-without-request-leaving", f"pickup/cancel records for {extra[:4]} but they did not leave", requests=extra[:4])
            if dup:
                ctx.violate("C19", "request-resolution-recorded-twice", f"requests {dup[:4]} have several pickup/cancel records in one step", requests=dup[:4])
        added = set(s.requests) - set(prev.requests)
        if "add_request_event" in L and not added <= addev:
            ctx.violate("C19", "admission-without-record", f"requests {sorted(added - addev)[:4]} appeared without an add record")
        for v in s.vehicles.values():
            p = prev.vehicles.get(v.id)
            if p is None:
                continue
            dm = [d for d in by["vehicle_move_event"] if d["vehicle_id"] == v.id]
            dd = v.distance_traveled_km - p.distance_traveled_km
            if "vehicle_move_event" not in L:
                pass
            elif dd > 0:
                ctx.count("c19_moves")
                if len(dm) != 1:
                    ctx.violate("C19", "move-record-count", f"{v.id} drove {dd} km but has {len(dm)} move records", vehicle=v.id)
                elif abs(float(dm[0]["distance_km"]) - dd) > 1e-9 * max(1.0, dd):
                    ctx.violate("C19", "move-record-distance", f"{v.id} drove {dd} km, record says {dm[0]['distance_km']}", vehicle=v.id)
            elif any(float(d["distance_km"]) > 0 for d in dm):
                ctx.violate("C19", "move-record-without-move", f"{v.id} did not drive but has a move record", vehicle=v.id)
            dc = [d for d in by["vehicle_charge_event"] if d["vehicle_id"] == v.id]
            g = sum(v.energy_gained.values()) - sum(p.energy_gained.values())
            if "vehicle_charge_event" not in L:
                pass
            elif g > 0:
                ctx.count("c19_charges")
                if len(dc) != 1:
                    ctx.violate("C19", "charge-record-count", f"{v.id} gained {g} but has {len(dc)} charge records", vehicle=v.id)
                elif abs(float(dc[0]["energy"]) - g) > 1e-9 * max(1.0, g):
                    ctx.violate("C19", "charge-record-energy", f"{v.id} gained {g}, record says {dc[0]['energy']}", vehicle=v.id)
            elif any(float(d["energy"]) > 0 for d in dc):
                ctx.violate("C19", "charge-record-without-charge", f"{v.id} gained nothing but has a charge record", vehicle=v.id)
            # trip ended by arrival <=> one drop-off record
            arrived = aname(v) == "ServicingTrip" and len(v.vehicle_state.route) == 0 and not (aname(p) == "ServicingTrip" and p.vehicle_state.instance_id == v.vehicle_state.instance_id and len(p.vehicle_state.route) == 0)
            mine = [d for d in by["dropoff_request_event"] if d["vehicle_id"] == v.id]
            if "dropoff_request_event" not in L:
                pass
            elif arrived:
                ctx.count("c19_dropoffs")
                rid = v.vehicle_state.request.id
                if len([d for d in mine if d["request_id"] == rid]) != 1:
                    ctx.violate("C19", "dropoff-record-count", f"{v.id} completed the trip of {rid} but has {len(mine)} drop-off records", vehicle=v.id)
            elif mine:
                ctx.violate("C19", "dropoff-record-without-arrival", f"{v.id} has a drop-off record but did not complete a trip in this step", vehicle=v.id)
        for d in by["pickup_request_event"]:
            ctx.count("c19_pickups")
            w = parse_wait(str(d["wait_time_seconds"]))
            if w is None:
                ctx.violate("C19", "wait-time-unparsable", f"pickup of {d['request_id']}: wait time {d['wait_time_seconds']!r}")
            elif not (0 <= w <= self.timeout + ctx.dt):
                ctx.violate("C19", "wait-time-out-of-range", f"pickup of {d['request_id']}: waited {d['wait_time_seconds']} (timeout {self.timeout}s, step {ctx.dt}s); request time {d.get('request_time')}, pickup time {d.get('pickup_time')}", request=d["request_id"])
            self._iso(ctx, d, "pickup_time")
            self._num(ctx, d, "price")
        ctx.count("c19_steps")

    def _num(self, ctx, d, k):
        try:
            float(d[k])
        except Exception:
            ctx.violate("C19", f"field-not-numeric-{k}", f"{d.get('report_type')}: {k}={d.get(k)!r} does not parse as a number")

    def _iso(self, ctx, d, k):
        if not is_iso(str(d.get(k))):
            ctx.violate("C19", f"field-not-iso-time-{k}", f"{d.get('report_type')}: {k}={d.get(k)!r} is not an ISO time")

    def finish(self, ctx):
        s = ctx.s
        for v in s.vehicles.values():
            if "vehicle_move_event" in self.logged and abs(self.odo[v.id] - v.distance_traveled_km) > 1e-6 * max(1.0, v.distance_traveled_km):
                ctx.violate("C19", "odometer-differs-from-move-records", f"{v.id}: odometer {v.distance_traveled_km} km, move records sum to {self.odo[v.id]}", vehicle=v.id)
            g = sum(v.energy_gained.values())
            if "vehicle_charge_event" in self.logged and abs(self.gained[v.id] - g) > 1e-6 * max(1.0, g):
                ctx.violate("C19", "gained-differs-from-charge-records", f"{v.id}: gained {g}, charge records sum to {self.gained[v.id]}", vehicle=v.id)
        st = self.st.stats
        if not {"add_request_event", "cancel_request_event"} <= self.logged:
            return
        if st.requests != self.adds or st.cancelled_requests != self.cancels:
            ctx.violate("C19", "summary-counts-differ-from-records", f"summary counts requests={st.requests} cancelled={st.cancelled_requests}; log has {self.adds} add and {self.cancels} cancel records")
        with contextlib.redirect_stdout(io.StringIO()):
            summ = ctx.rp.e.reporter.get_summary_stats(ctx.rp)
        exp = 1 - (self.cancels / self.adds) if self.adds else 0.0
        if summ is None or abs(summ["requests_served_percent"] - exp) > 1e-12:
            ctx.violate("C19", "served-ratio-differs", f"summary says served {summ and summ['requests_served_percent']}, records give {exp}")
        ctx.count("c19_adds", self.adds)
        ctx.count("c19_cancels", self.cancels)
