"""C20 - human drivers follow their shift schedule (integer seconds-of-day model from the schedule spec)."""
from __future__ import annotations

from typing import Dict

from hivemon.monitors.base import Monitor


def in_shift(a: int, b: int, t: int) -> bool:
    x = t % 86400
    if a <= b:
        return a <= x < b
    return x >= a or x < b


class C20(Monitor):
    prop = "C20"

    def start(self, ctx):
        spec = ctx.spec
        self.sched = {s["id"]: (s["start"] % 86400, s["end"] % 86400) for s in (spec.get("schedules") or [])}
        self.veh = {v["id"]: v.get("schedule") for v in spec["vehicles"] if v.get("schedule")}
        self.avail: Dict[str, bool] = {vid: False for vid in self.veh}
        for vid in self.veh:
            v = ctx.s.vehicles.get(vid)
            if v is not None and v.driver_state.available:
                ctx.violate("C20", "initially-available", f"{vid} is available before the first step")

    def on_step(self, ctx):
        tk = ctx.t
        s = ctx.s
        ev = [(r.report["vehicle_id"], r.report["schedule_event"]) for r in ctx.E if r.report_type.name == "DRIVER_SCHEDULE_EVENT"]
        if len(ev) != len(set(ev)):
            ctx.violate("C20", "duplicate-shift-event", f"shift event reported twice in step {ctx.k}: {sorted(ev)}")
        evset = set(ev)
        for vid, sid in getattr(ctx, "added_humans", {}).items():
            if vid not in self.veh:  # a driver who joined between two calls starts unavailable, like those of the vehicles file
                self.veh[vid] = sid
                self.avail[vid] = False
                ctx.count("c20_drivers_joined_mid_run")
                a, b = self.sched[sid]
                if in_shift(a, b, tk):
                    ctx.count("c20_drivers_joined_while_their_shift_was_running")
        for vid, sid in self.veh.items():
            v = s.vehicles.get(vid)
            if v is None:
                continue
            a, b = self.sched[sid]
            exp = in_shift(a, b, tk)
            got = bool(v.driver_state.available)
            ctx.count("c20_availability_checks")
            if got != exp:
                ctx.violate("C20", "availability-differs-from-shift", f"{vid} shift [{a},{b}) at t={tk} ({tk % 86400}s of day): available={got}, expected {exp}", vehicle=vid, shift=[a, b], t=tk)
            flipped = got != self.avail[vid]
            mine = [e for e in evset if e[0] == vid]
            if flipped:
                ctx.count("c20_flips")
                want = (vid, "on" if got else "off")
                if want not in evset:
                    ctx.violate("C20", "flip-without-event", f"{vid} became {'available' if got else 'unavailable'} at t={tk} but no '{want[1]}' event was reported (events {mine})", vehicle=vid)
                if len(mine) > 1 or (mine and mine[0] != want):
                    ctx.violate("C20", "wrong-shift-event", f"{vid} flipped to {got} but events are {mine}", vehicle=vid)
            elif mine:
                ctx.violate("C20", "event-without-flip", f"{vid} availability unchanged ({got}) at t={tk} but events {mine} were reported", vehicle=vid)
            self.avail[vid] = got
            if exp:
                ctx.count("c20_on_shift_steps")
        for name, t, ins, sim in ctx.gen_log:
            if name != "Dispatcher":
                continue
            for i in ins:
                if type(i).__name__ != "DispatchTripInstruction":
                    continue
                sid = self.veh.get(i.vehicle_id)
                if sid is None:
                    continue
                ctx.count("c20_dispatches_of_human_drivers")
                a, b = self.sched[sid]
                if not in_shift(a, b, t):
                    ctx.violate("C20", "dispatched-off-shift", f"Dispatcher assigned {i.request_id} to {i.vehicle_id} at t={t} outside its shift [{a},{b})", vehicle=i.vehicle_id)
        ctx.count("c20_steps")
