import importlib

TABLE = {
    "C02": "hivemon.monitors.invariants:C02",
    "C07": "hivemon.monitors.invariants:C07",
    "C10": "hivemon.monitors.invariants:C10",
    "C17": "hivemon.monitors.invariants:C17",
    "C03": "hivemon.monitors.ledgers:C03",
    "C04": "hivemon.monitors.ledgers:C04",
    "C05": "hivemon.monitors.ledgers:C05",
    "C06": "hivemon.monitors.movement:C06",
    "C08": "hivemon.monitors.index:C08",
    "C09": "hivemon.monitors.instructions:C09",
    "C11": "hivemon.monitors.calendar:C11",
    "C12": "hivemon.monitors.dispatch:C12",
    "C16": "hivemon.monitors.immut:C16",
    "C18": "hivemon.monitors.queue:C18",
    "C19": "hivemon.monitors.eventlog:C19",
    "C20": "hivemon.monitors.shift:C20",
    "C13R": "hivemon.monitors.routes:C13R",
    "C14R": "hivemon.monitors.routes:C14R",
}


def make(name: str):
    mod, cls = TABLE[name].split(":")
    return getattr(importlib.import_module(mod), cls)()
