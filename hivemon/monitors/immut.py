"""C16 - earlier states are never modified (immutability sanitizer over retained states + step-twice)."""
from __future__ import annotations

import random
from typing import Any, List, Tuple

from hivemon import hooks
from hivemon.fingerprint import diff_states, fp_state
from hivemon.monitors.base import Monitor


# the last state of the previous simulation run in this worker process (with the step function and environment it belongs
# to, and the fingerprint of what one step from it gave then)
_CARRY: List[Any] = []


class C16(Monitor):
    prop = "C16"
    hooks = ("apply",)

    def start(self, ctx):
        if _CARRY:
            # another scenario has been loaded since: a state saved from the earlier simulation still reads and steps the same
            label, S0, su0, env0, f_read, f_step = _CARRY[0]
            saved = list(env0.reporter.reports)
            try:
                ctx.count("c16_states_of_the_previous_simulation_checked_again")
                if fp_state(S0, ids=True) != f_read:
                    ctx.violate("C16", "retained-state-changed", f"the last state of the previous simulation in this process ({label}) reads differently after this scenario was loaded")
                r0, _ = su0.update(S0, env0)
                if fp_state(r0, ids=False) != f_step:
                    ctx.violate("C16", "stepping-again-after-another-simulation-was-loaded-differs", f"the last state of the previous simulation in this process ({label}), stepped again after this scenario was loaded, gave a different result", diff=[])
            finally:
                env0.reporter.reports[:] = saved
                del _CARRY[:]
        self.kept: List[Tuple[int, Any, str]] = [(-1, ctx.s, fp_state(ctx.s, ids=True))]
        self.rnd = random.Random(ctx.case.get("case_seed", 0))
        self.every = int(ctx.opts.get("c16_keep_every", 1))
        self.twice_every = int(ctx.opts.get("c16_twice_every", 10))
        self.real_apply = hooks.real_apply_instructions()
        self.stepped: List[Tuple[int, Any, Any, str]] = []  # (step, state, step function with its generators, fingerprint of the result)

    def _recheck(self, ctx, items, when):
        for k, s, f in items:
            ctx.count("c16_rechecks")
            f2 = fp_state(s, ids=True)
            if f2 != f:
                ctx.violate("C16", "retained-state-changed", f"the state saved after step {k} reads differently {when}", saved_step=k)

    def on_step(self, ctx):
        if ctx.k % self.every == 0:
            self.kept.append((ctx.k, ctx.s, fp_state(ctx.s, ids=True)))
            ctx.count("c16_states_retained")
        if ctx.k % 20 == 19:
            self._recheck(ctx, self.rnd.sample(self.kept, min(8, len(self.kept))), f"after step {ctx.k}")
        if ctx.k % self.twice_every == 0:
            self._twice(ctx)

    def _twice(self, ctx):
        rp, env = ctx.rp, ctx.env
        S = rp.s
        f0 = fp_state(S, ids=True)
        saved = list(env.reporter.reports)
        n_log = len(ctx.gen_log)
        saved_rec = {k: list(v) for k, v in hooks.REC.events.items()}
        try:
            su = rp.u.step_update
            a, _ = su.update(S, env)
            fa = fp_state(a, ids=False)
            if ctx.opts.get("c16_branch", True):
                # what a co-simulation client does with saved states: go back to an earlier one and step it again, then try
                # a what-if on a modified copy of this one (same clock value) - and only then step this one a second time
                if self.stepped:
                    k0, S0, su0, f_first = self.rnd.choice(self.stepped)
                    r0, _ = su0.update(S0, env)
                    ctx.count("c16_earlier_states_stepped_again")
                    if fp_state(r0, ids=False) != f_first:
                        ctx.violate("C16", "stepping-again-later-differs", f"the state saved after step {k0}, stepped again after step {ctx.k}, gave a different result than the first time", saved_step=k0)
                S2, what = self._what_if(ctx, S)
                if S2 is not None:
                    try:
                        su.update(S2, env)
                        ctx.count("c16_what_if_branches")
                        ctx.seen("c16_what_if_kinds", what)
                    except Exception:
                        ctx.count("c16_what_if_branches_that_raised")
            b, _ = su.update(S, env)
            ctx.count("c16_step_twice")
            fb = fp_state(b, ids=False)
            if fa != fb:
                ctx.violate("C16", "stepping-twice-differs", f"stepping the state saved after step {ctx.k} twice gave two different results", diff=diff_states(a, b, ids=False))
            if ctx.k % (self.twice_every * 4) == 0:
                # replays of several steps: whatever is drawn while stepping (the random instance tags of new activities,
                # for one) must not decide anything that shows later
                L = 4 + self.rnd.randrange(6)
                ends = []
                for _ in range(2):
                    x, sx = S, su
                    for _j in range(L):
                        x, sx = sx.update(x, env)
                    ends.append(x)
                ctx.count("c16_replays_of_several_steps")
                if fp_state(ends[0], ids=False) != fp_state(ends[1], ids=False):
                    ctx.violate("C16", "replaying-several-steps-twice-differs", f"replaying {L} steps from the state saved after step {ctx.k} twice gave two different results", diff=diff_states(ends[0], ends[1], ids=False))
            self.stepped.append((ctx.k, S, su, fa))
            if len(self.stepped) > 10:
                self.stepped.pop(self.rnd.randrange(len(self.stepped)))
            if fp_state(S, ids=True) != f0:
                ctx.violate("C16", "stepped-state-changed", f"stepping from the state saved after step {ctx.k} altered it")
            # apply_instructions twice on the batch captured in this step
            for bt in saved_rec.get("apply", [])[:1]:
                fb0 = fp_state(bt["before"], ids=True)
                x = self.real_apply(bt["before"], env, bt["instructions"])
                y = self.real_apply(bt["before"], env, bt["instructions"])
                ctx.count("c16_apply_twice")
                if fp_state(x, ids=False) != fp_state(y, ids=False):
                    ctx.violate("C16", "applying-twice-differs", "applying the same instructions to the same state twice gave different results", diff=diff_states(x, y, ids=False))
                if fp_state(x, ids=False) != fp_state(bt["after"], ids=False):
                    ctx.violate("C16", "applying-again-differs-from-run", "re-applying the step's instructions to the saved state differs from what the step produced", diff=diff_states(x, bt["after"], ids=False))
                if fp_state(bt["before"], ids=True) != fb0:
                    ctx.violate("C16", "instructed-state-changed", "applying instructions altered the state they were applied to")
        finally:
            env.reporter.reports[:] = saved
            del ctx.gen_log[n_log:]
            hooks.REC.events.clear()
            hooks.REC.events.update(saved_rec)

    def _what_if(self, ctx, S):
        """a copy of S at the same clock value in which one station is closed (removed if nobody uses it, else made private)
        or is fully occupied - built with the public state operations; S itself is left alone."""
        from nrel.hive.state.simulation_state import simulation_state_ops as sso
        from returns.result import Failure

        sids = sorted(S.stations.keys())
        if not sids:
            return None, None
        # prefer a station that a vehicle was just sent to or that is nearest to a vehicle low on energy: that is the
        # station the built-in search would pick again
        targeted = sorted({getattr(v.vehicle_state, "station_id", None) for v in S.vehicles.values() if type(v.vehicle_state).__name__ == "DispatchStation"} - {None})
        sid = self.rnd.choice(targeted) if targeted and self.rnd.random() < 0.6 else self.rnd.choice(sids)
        st = S.stations[sid]
        used = any(getattr(v.vehicle_state, "station_id", None) == sid for v in S.vehicles.values()) or any(b.station_id == sid for b in S.bases.values())
        kind = self.rnd.choice(["close", "close", "occupy"])
        try:
            if kind == "close" and not used:
                res = sso.remove_station_safe(S, sid)
                what = "station-removed"
            elif kind == "close":
                res = sso.modify_station_safe(S, st.set_membership(("what_if_closed",)))
                what = "station-made-private"
            else:
                full = st
                for cid in sorted(st.state.keys()):
                    for _ in range(st.state[cid].available_chargers):
                        err, nxt = full.checkout_charger(cid)
                        if err is None and nxt is not None:
                            full = nxt
                res = sso.modify_station_safe(S, full)
                what = "station-fully-occupied"
        except Exception:
            return None, None
        if isinstance(res, Failure):
            return None, None
        return res.unwrap(), what

    def finish(self, ctx):
        self._recheck(ctx, self.kept, "at the end of the run")
        # hand the last state over to the next simulation of this process
        try:
            rp, env = ctx.rp, ctx.env
            saved = list(env.reporter.reports)
            n_log = len(ctx.gen_log)
            r, _ = rp.u.step_update.update(rp.s, env)
            env.reporter.reports[:] = saved
            del ctx.gen_log[n_log:]
            del _CARRY[:]
            _CARRY.append((str(ctx.case.get("id")), rp.s, rp.u.step_update, env, fp_state(rp.s, ids=True), fp_state(r, ids=False)))
        except Exception:
            del _CARRY[:]
