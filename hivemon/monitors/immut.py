"""C16 - earlier states are never modified (immutability sanitizer over retained states + step-twice)."""
from __future__ import annotations

import random
from typing import Any, List, Tuple

from hivemon import hooks
from hivemon.fingerprint import diff_states, fp_state
from hivemon.monitors.base import Monitor


class C16(Monitor):
    prop = "C16"
    hooks = ("apply",)

    def start(self, ctx):
        self.kept: List[Tuple[int, Any, str]] = [(-1, ctx.s, fp_state(ctx.s, ids=True))]
        self.rnd = random.Random(ctx.case.get("case_seed", 0))
        self.every = int(ctx.opts.get("c16_keep_every", 1))
        self.twice_every = int(ctx.opts.get("c16_twice_every", 10))
        self.real_apply = hooks.real_apply_instructions()

    def _recheck(self, ctx, items, when):
        for k, s, f in items:
            ctx.count("c16_rechecks")
            f2 = fp_state(s, ids=True)
            if f2 != f:
                ctx.violate("C16", "retained-state-changed", f"the state saved after step {k} reads differently {when}", saved_step=k)

    def on_step(self, ctx):
        if ctx.k % self.every == 0:
            self.kept.append((ctx.k, ctx.s, fp_state(ctx.s, ids=True)))
            ctx.count("c16_states_retained")
        if ctx.k % 20 == 19:
            self._recheck(ctx, self.rnd.sample(self.kept, min(8, len(self.kept))), f"after step {ctx.k}")
        if ctx.k % self.twice_every == 0:
            self._twice(ctx)

    def _twice(self, ctx):
        rp, env = ctx.rp, ctx.env
        S = rp.s
        f0 = fp_state(S, ids=True)
        saved = list(env.reporter.reports)
        n_log = len(ctx.gen_log)
        saved_rec = {k: list(v) for k, v in hooks.REC.events.items()}
        try:
            a, _ = rp.u.step_update.update(S, env)
            b, _ = rp.u.step_update.update(S, env)
            ctx.count("c16_step_twice")
            fa, fb = fp_state(a, ids=False), fp_state(b, ids=False)
            if fa != fb:
                ctx.violate("C16", "stepping-twice-differs", f"stepping the state saved after step {ctx.k} twice gave two different results", diff=diff_states(a, b, ids=False))
            if fp_state(S, ids=True) != f0:
                ctx.violate("C16", "stepped-state-changed", f"stepping from the state saved after step {ctx.k} altered it")
            # apply_instructions twice on the batch captured in this step
            for bt in saved_rec.get("apply", [])[:1]:
                fb0 = fp_state(bt["before"], ids=True)
                x = self.real_apply(bt["before"], env, bt["instructions"])
                y = self.real_apply(bt["before"], env, bt["instructions"])
                ctx.count("c16_apply_twice")
                if fp_state(x, ids=False) != fp_state(y, ids=False):
                    ctx.violate("C16", "applying-twice-differs", "applying the same instructions to the same state twice gave different results", diff=diff_states(x, y, ids=False))
                if fp_state(x, ids=False) != fp_state(bt["after"], ids=False):
                    ctx.violate("C16", "applying-again-differs-from-run", "re-applying the step's instructions to the saved state differs from what the step produced", diff=diff_states(x, bt["after"], ids=False))
                if fp_state(bt["before"], ids=True) != fb0:
                    ctx.violate("C16", "instructed-state-changed", "applying instructions altered the state they were applied to")
        finally:
            env.reporter.reports[:] = saved
            del ctx.gen_log[n_log:]
            hooks.REC.events.clear()
            hooks.REC.events.update(saved_rec)

    def finish(self, ctx):
        self._recheck(ctx, self.kept, "at the end of the run")
