"""state invariants evaluated after every step and in every systematically reached state.

C02 plug / queue / stall counters vs the vehicles using them
C07 activity consistent with location (static part + route ends + pickup / drop-off places)
C10 every activity's target grants the vehicle access; built-in generators only propose granted targets
C17 a request's recorded vehicle is travelling to it

All counting is done here from ``state.vehicles``; station / base helper methods are never used.
"""
from __future__ import annotations

import collections
from typing import Any, Callable, Dict, List, Optional, Tuple

from hivemon.monitors.base import Monitor, aname, grants, TRAVELLING

Finding = Tuple[str, str, Dict[str, Any]]  # (mechanism, message, witness)


# ------------------------------------------------------------------------------------------ C02


def check_c02(s) -> Tuple[List[Finding], Dict[str, int]]:
    out: List[Finding] = []
    use = collections.Counter()
    q = collections.Counter()
    stall = collections.Counter()
    for v in s.vehicles.values():
        vs = v.vehicle_state
        n = type(vs).__name__
        if n == "ChargingStation":
            use[(vs.station_id, vs.charger_id)] += 1
        elif n == "ChargingBase":
            b = s.bases.get(vs.base_id)
            stall[vs.base_id] += 1
            if b is None:
                out.append(("chargingbase-missing-base", f"{v.id} charges at base {vs.base_id} which does not exist", {"vehicle": v.id}))
            else:
                use[(b.station_id, vs.charger_id)] += 1
        elif n == "ChargeQueueing":
            q[(vs.station_id, vs.charger_id)] += 1
        elif n == "ReserveBase":
            stall[vs.base_id] += 1
    stats = {"plugs_in_use": sum(use.values()), "queued": sum(q.values()), "stalls_in_use": sum(stall.values())}
    seen_keys = set()
    for st in s.stations.values():
        for c, cs in st.state.items():
            seen_keys.add((st.id, c))
            a, t, e = cs.available_chargers, cs.total_chargers, cs.enqueued_vehicles
            if not (0 <= a <= t):
                out.append(("plug-range", f"station {st.id} plug {c}: available {a} outside [0,{t}]", {"station": st.id, "plug": c}))
            if t - a != use[(st.id, c)]:
                out.append(
                    (
                        "plug-count",
                        f"station {st.id} plug {c}: installed {t} - free {a} = {t-a} but {use[(st.id,c)]} vehicles charge there",
                        {"station": st.id, "plug": c, "users": _users(s, st.id, c)},
                    )
                )
            if e != q[(st.id, c)]:
                out.append(
                    (
                        "queue-count",
                        f"station {st.id} plug {c}: waiting counter {e} but {q[(st.id,c)]} vehicles queue there",
                        {"station": st.id, "plug": c},
                    )
                )
            if a == 0:
                stats["full_plug_states"] = stats.get("full_plug_states", 0) + 1
    # vehicles *waiting* for a plug type the station does not have: there is no counter to compare with, so this is outside
    # the property's statement ("for every station and plug type"); counted for the record only. Vehicles *charging* on a
    # plug type the station does not have are a different matter: installed = free = 0 there, so nobody can be charging
    stats["users_of_uninstalled_plug"] = sum(n for k, n in use.items() if k not in seen_keys) + sum(n for k, n in q.items() if k not in seen_keys)
    for (sid, c), n in sorted(use.items(), key=lambda kv: (str(kv[0][0]), str(kv[0][1]))):
        if (sid, c) not in seen_keys and sid in s.stations:
            out.append(("charging-on-uninstalled-plug", f"station {sid} has no {c} plug (installed 0, free 0) but {n} vehicles charge on one there", {"station": sid, "plug": c, "users": _users(s, sid, c)}))
    for b in s.bases.values():
        a, t = b.available_stalls, b.total_stalls
        if not (0 <= a <= t):
            out.append(("stall-range", f"base {b.id}: free stalls {a} outside [0,{t}]", {"base": b.id}))
        if t - a != stall[b.id]:
            out.append(("stall-count", f"base {b.id}: total {t} - free {a} = {t-a} but {stall[b.id]} vehicles park/charge there", {"base": b.id}))
        if a == 0:
            stats["full_base_states"] = stats.get("full_base_states", 0) + 1
    return out, stats


def _users(s, sid, c):
    out = []
    for v in s.vehicles.values():
        vs = v.vehicle_state
        n = type(vs).__name__
        if n == "ChargingStation" and vs.station_id == sid and vs.charger_id == c:
            out.append(v.id)
        elif n == "ChargingBase":
            b = s.bases.get(vs.base_id)
            if b is not None and b.station_id == sid and vs.charger_id == c:
                out.append(v.id + "@" + vs.base_id)
    return sorted(out)


class C02(Monitor):
    prop = "C02"
    hooks = ("move",)

    def on_step(self, ctx):
        findings, stats = check_c02(ctx.s)
        for mech, msg, w in findings:
            ctx.violate("C02", mech, msg, **w)
        ctx.count("c02_states_checked")
        ctx.count("c02_plugs_in_use", stats["plugs_in_use"])
        ctx.count("c02_queued", stats["queued"])
        ctx.count("c02_stalls_in_use", stats["stalls_in_use"])
        ctx.count("c02_full_plug_states", stats.get("full_plug_states", 0))
        ctx.count("c02_full_base_states", stats.get("full_base_states", 0))
        ctx.count("c02_out_of_energy", len(ctx.H.get("out_of_energy", [])))
        for v in ctx.s.vehicles.values():
            p = ctx.prev.vehicles.get(v.id)
            if p is not None and p.vehicle_state.instance_id != v.vehicle_state.instance_id:
                ctx.seen("transitions", f"{aname(p)}>{aname(v)}")
            ctx.seen("activities", aname(v))


# ------------------------------------------------------------------------------------------ C07


def _target_geoid(s, v) -> Tuple[Optional[str], Optional[str]]:
    """(kind, geoid) of the entity a travelling vehicle was sent to; None if it no longer exists."""
    vs = v.vehicle_state
    n = type(vs).__name__
    if n == "DispatchTrip":
        r = s.requests.get(vs.request_id)
        return ("request", r.origin if r is not None else None)
    if n == "ServicingTrip":
        return ("destination", vs.request.destination)
    if n == "DispatchStation":
        st = s.stations.get(vs.station_id)
        return ("station", st.geoid if st is not None else None)
    if n == "DispatchBase":
        b = s.bases.get(vs.base_id)
        return ("base", b.geoid if b is not None else None)
    return (None, None)


def check_c07(s) -> List[Finding]:
    out: List[Finding] = []
    for v in s.vehicles.values():
        vs = v.vehicle_state
        n = type(vs).__name__
        if n in ("ChargingStation", "ChargeQueueing"):
            st = s.stations.get(vs.station_id)
            if st is None:
                out.append((f"{n.lower()}-missing-station", f"{v.id} is {n} at missing station {vs.station_id}", {"vehicle": v.id}))
            elif st.geoid != v.geoid:
                out.append((f"{n.lower()}-not-at-station", f"{v.id} is {n} at {vs.station_id} but stands at {v.geoid} != {st.geoid}", {"vehicle": v.id, "station": st.id}))
        elif n in ("ReserveBase", "ChargingBase"):
            b = s.bases.get(vs.base_id)
            if b is None:
                out.append((f"{n.lower()}-missing-base", f"{v.id} is {n} at missing base {vs.base_id}", {"vehicle": v.id}))
            elif b.geoid != v.geoid:
                out.append((f"{n.lower()}-not-at-base", f"{v.id} is {n} at {vs.base_id} but stands at {v.geoid} != {b.geoid}", {"vehicle": v.id, "base": b.id}))
        elif n in TRAVELLING:
            route = vs.route
            kind, tg = _target_geoid(s, v)
            if len(route) > 0:
                if route[0].start != v.geoid:
                    out.append((f"{n.lower()}-route-start", f"{v.id} {n}: route starts at {route[0].start}, vehicle at {v.geoid}", {"vehicle": v.id}))
                if tg is not None and route[-1].end != tg:
                    out.append((f"{n.lower()}-route-end", f"{v.id} {n}: route ends at {route[-1].end}, {kind} is at {tg}", {"vehicle": v.id}))
            else:
                if tg is not None and v.geoid != tg:
                    out.append((f"{n.lower()}-arrived-elsewhere", f"{v.id} {n}: route exhausted at {v.geoid} but {kind} is at {tg}", {"vehicle": v.id}))
    return out


class C07(Monitor):
    prop = "C07"
    hooks = ("move",)

    def on_step(self, ctx):
        s = ctx.s
        for mech, msg, w in check_c07(s):
            ctx.violate("C07", mech, msg, **w)
        ctx.count("c07_states_checked")
        for v in s.vehicles.values():
            n = aname(v)
            if n in ("ChargingStation", "ChargeQueueing", "ReserveBase", "ChargingBase"):
                ctx.count("c07_stationary_checks")
            elif n in TRAVELLING:
                ctx.count("c07_route_checks")
        # trips start at the origin and end at the destination
        for r in ctx.E:
            t = r.report_type.name
            d = r.report
            if t == "PICKUP_REQUEST_EVENT":
                req = _find_request(ctx, d["request_id"], d["vehicle_id"])
                ctx.count("c07_pickups")
                if req is not None and req.origin != d["geoid"]:
                    ctx.violate("C07", "pickup-not-at-origin", f"request {d['request_id']} picked up at {d['geoid']} but its origin is {req.origin}", request=d["request_id"], vehicle=d["vehicle_id"])
            elif t == "DROPOFF_REQUEST_EVENT":
                req = _find_request(ctx, d["request_id"], d["vehicle_id"])
                ctx.count("c07_dropoffs")
                if req is not None and req.destination != d["geoid"]:
                    ctx.violate("C07", "dropoff-not-at-destination", f"request {d['request_id']} dropped at {d['geoid']} but its destination is {req.destination}", request=d["request_id"], vehicle=d["vehicle_id"])
        # a trip ends when its route is exhausted (the drop-off is made in that step); a vehicle that still had road ahead and
        # is no longer on that trip (other than by running dry) abandoned its passengers short of the destination
        for v in s.vehicles.values():
            p = ctx.prev.vehicles.get(v.id)
            if p is None or aname(p) != "ServicingTrip" or len(p.vehicle_state.route) == 0:
                continue
            same = aname(v) == "ServicingTrip" and v.vehicle_state.instance_id == p.vehicle_state.instance_id
            if same and len(v.vehicle_state.route) > 0:
                if len(v.vehicle_state.route) <= 2:
                    ctx.count("c07_servicing_steps_with_at_most_two_links_left")
                continue
            ctx.count("c07_trips_ended")
            dest = p.vehicle_state.request.destination
            if same:
                if v.geoid != dest:
                    ctx.violate("C07", "trip-ended-away-from-destination", f"{v.id} exhausted the route of {p.vehicle_state.request.id} at {v.geoid}, the destination is {dest}", vehicle=v.id, request=p.vehicle_state.request.id)
            elif aname(v) != "OutOfService" or v.id not in {ev["vid"] for ev in ctx.H.get("out_of_energy", [])}:
                # (running dry is the one way to lose the passengers short of the destination; being told to go out of
                # service is an instruction like any other)
                ctx.violate("C07", "trip-abandoned-before-destination", f"{v.id} left ServicingTrip of {p.vehicle_state.request.id} for {aname(v)} at {v.geoid} with {len(p.vehicle_state.route)} links still to drive (destination {dest})", vehicle=v.id, request=p.vehicle_state.request.id)
        # Repositioning: the route entered with ends at the instructed link's end
        for vid, ins in s.applied_instructions.items():
            if type(ins).__name__ == "RepositionInstruction":
                v = s.vehicles.get(vid)
                if v is not None and aname(v) == "Repositioning" and len(v.vehicle_state.route) > 0:
                    link = s.road_network.link_from_link_id(ins.destination)
                    ctx.count("c07_reposition_checks")
                    if link is not None and v.vehicle_state.route[-1].end != link.end:
                        ctx.violate("C07", "repositioning-route-end", f"{vid} repositioning to link {ins.destination} but route ends at {v.vehicle_state.route[-1].end} != {link.end}", vehicle=vid)


def _find_request(ctx, rid, vid):
    for st in (ctx.s, ctx.prev):
        v = st.vehicles.get(vid)
        if v is not None and aname(v) == "ServicingTrip" and v.vehicle_state.request.id == rid:
            return v.vehicle_state.request
    return ctx.prev.requests.get(rid)


# ------------------------------------------------------------------------------------------ C10


def check_c10(s) -> List[Finding]:
    out: List[Finding] = []
    for v in s.vehicles.values():
        vs = v.vehicle_state
        n = type(vs).__name__
        tgt = None
        if n == "DispatchTrip":
            tgt = s.requests.get(vs.request_id)
        elif n == "ServicingTrip":
            tgt = vs.request
        elif n in ("DispatchStation", "ChargingStation", "ChargeQueueing"):
            tgt = s.stations.get(vs.station_id)
        elif n in ("DispatchBase", "ReserveBase", "ChargingBase"):
            tgt = s.bases.get(vs.base_id)
        if tgt is not None and not grants(tgt, v):
            out.append(
                (
                    f"unauthorised-{n.lower()}",
                    f"{v.id} (fleets {sorted(v.membership.memberships)}) is {n} on {tgt.id} (fleets {sorted(tgt.membership.memberships)})",
                    {"vehicle": v.id, "target": tgt.id},
                )
            )
    return out


class C10(Monitor):
    prop = "C10"
    hooks = ("driver",)

    def start(self, ctx):
        # access rights come from the inputs: the fleets file, and for a human driver's home base (and its charger) a
        # membership private to that driver - the loaded entities must carry them, or every later test compares against
        # rights that were lost on the way in
        spec = ctx.spec if isinstance(ctx.spec, dict) else {}
        s = ctx.s
        owners = collections.defaultdict(list)
        for v in spec.get("vehicles") or []:
            if v.get("home_base"):
                owners[v["home_base"]].append(v["id"])
        fl = spec.get("fleets") or {}
        if fl:
            for kind, coll, key in (("vehicle", s.vehicles, "vehicles"), ("station", s.stations, "stations"), ("base", s.bases, "bases")):
                for eid, e in coll.items():
                    want = {f for f, m in fl.items() if eid in (m.get(key) or [])}
                    got = {m for m in e.membership.memberships if "_private_" not in m}
                    ctx.count("c10_memberships_compared_with_the_fleets_file")
                    if got != want:
                        ctx.violate("C10", f"{kind}-membership-differs-from-fleets-file", f"{kind} {eid} is loaded with fleets {sorted(got)}, the fleets file lists it under {sorted(want)}", entity=eid)
        for bid, vids in owners.items():
            b = s.bases.get(bid)
            if b is None or len(vids) != 1:
                continue  # shared home bases: whose private id the base keeps is left open (DESIGN 6)
            v = s.vehicles.get(vids[0])
            if v is None:
                continue
            ctx.count("c10_home_bases_checked")
            targets = [("base", b)] + ([("station", s.stations[b.station_id])] if b.station_id and b.station_id in s.stations else [])
            for kind, e in targets:
                private = set(e.membership.memberships) & set(v.membership.memberships)
                others = [o for o in s.vehicles.values() if o.id != v.id and e.membership.grant_access_to_membership(o.membership) and not any(o.id in (f.get("vehicles") or []) and e.id in ((f.get("bases") or []) + (f.get("stations") or [])) for f in (spec.get("fleets") or {}).values())]
                if not private or others:
                    ctx.violate("C10", f"home-{kind}-not-private", f"home {kind} {e.id} of driver {v.id} is loaded with memberships {sorted(e.membership.memberships)}: " + ("its driver has no access" if not private else f"vehicles {sorted(o.id for o in others)[:4]} have access without sharing a fleet with it"), base=bid, vehicle=v.id)

    def on_step(self, ctx):
        s = ctx.s
        # "never *starts* ...": judged for the activities that began in this step. With fixed memberships that is the same
        # as judging every state; it differs when a co-simulation client moves a vehicle to another fleet while it is engaged
        started = {v.id for v in s.vehicles.values() if ctx.prev.vehicles.get(v.id) is None or ctx.prev.vehicles[v.id].vehicle_state.instance_id != v.vehicle_state.instance_id}
        for mech, msg, w in check_c10(s):
            if w.get("vehicle") in started or not ctx.opts.get("cosim_ops"):
                ctx.violate("C10", mech, msg, **w)
        ctx.count("c10_states_checked")
        ctx.count("c10_activity_starts", len(started))
        for v in s.vehicles.values():
            n = aname(v)
            if n not in ("Idle", "Repositioning", "OutOfService"):
                vs = v.vehicle_state
                tgt = (
                    s.requests.get(vs.request_id) if n == "DispatchTrip" else vs.request if n == "ServicingTrip" else s.stations.get(vs.station_id) if hasattr(vs, "station_id") else s.bases.get(vs.base_id) if hasattr(vs, "base_id") else None
                )
                if tgt is not None:
                    ctx.count("c10_target_checks")
                    if len(tgt.membership.memberships) > 0:
                        ctx.count("c10_restricted_target_checks")
        # proposals of the built-in generators and of the drivers
        for name, t, ins, sim in ctx.gen_log:
            if name not in ("Dispatcher", "ChargingFleetManager"):
                continue
            for i in ins:
                self._check_proposal(ctx, name, i, sim)
        # the drivers' own proposals (go to / charge at the base I am parked at, ...) are judged too, except in runs where a
        # co-simulation client re-assigns vehicles to other fleets while they are parked: the statement speaks of the built-in
        # dispatchers, and a driver proposing to charge where it already stands is not a pairing decision
        moved_between_fleets = "change_membership" in ((ctx.opts.get("cosim_ops") or {}).get("kinds") or [])
        for ev in ctx.H.get("driver_instruction", []):
            i = ev["instruction"]
            if i is not None and not moved_between_fleets:
                self._check_proposal(ctx, ev["driver"], i, ctx.prev)
        # rejected cross-fleet attempts seen (evidence that the workload is hostile enough)
        for name, t, ins, sim in ctx.gen_log:
            if name.startswith("Hostile"):
                for i in ins:
                    tgt = _instr_target(sim, i)
                    v = sim.vehicles.get(i.vehicle_id)
                    if tgt is not None and v is not None and not grants(tgt, v):
                        ctx.count("c10_hostile_cross_fleet_instructions")

    def _check_proposal(self, ctx, who, i, sim):
        v = sim.vehicles.get(i.vehicle_id)
        tgt = _instr_target(sim, i)
        if v is None or tgt is None:
            return
        ctx.count(f"c10_proposals_{who}")
        if len(tgt.membership.memberships) > 0:
            ctx.count("c10_proposals_restricted_target")
        if not grants(tgt, v):
            ctx.violate(
                "C10",
                f"{who.lower()}-pairs-non-member",
                f"{who} proposed {type(i).__name__} for {v.id} (fleets {sorted(v.membership.memberships)}) on {tgt.id} (fleets {sorted(tgt.membership.memberships)})",
                vehicle=v.id,
                target=tgt.id,
            )


def _instr_target(sim, i):
    n = type(i).__name__
    if n == "DispatchTripInstruction":
        return sim.requests.get(i.request_id)
    if n in ("DispatchStationInstruction", "ChargeStationInstruction"):
        return sim.stations.get(i.station_id)
    if n in ("DispatchBaseInstruction", "ReserveBaseInstruction", "ChargeBaseInstruction"):
        return sim.bases.get(i.base_id)
    return None


# ------------------------------------------------------------------------------------------ C17


def check_c17(s, builtin_only: bool = False) -> List[Finding]:
    out: List[Finding] = []
    for r in s.requests.values():
        if r.dispatched_vehicle is not None:
            v = s.vehicles.get(r.dispatched_vehicle)
            if v is None:
                out.append(("assigned-vehicle-missing", f"request {r.id} records vehicle {r.dispatched_vehicle} which does not exist", {"request": r.id}))
            elif aname(v) != "DispatchTrip" or v.vehicle_state.request_id != r.id:
                out.append(
                    (
                        f"stale-assignment-{aname(v).lower()}",
                        f"request {r.id} records vehicle {v.id} but it is {aname(v)}" + (f" to {v.vehicle_state.request_id}" if aname(v) == "DispatchTrip" else ""),
                        {"request": r.id, "vehicle": v.id},
                    )
                )
    if builtin_only:
        n = collections.Counter()
        for v in s.vehicles.values():
            if aname(v) == "DispatchTrip":
                n[v.vehicle_state.request_id] += 1
        for rid, k in n.items():
            if k > 1:
                out.append(("two-vehicles-one-request", f"{k} vehicles travel to request {rid} under the built-in dispatcher", {"request": rid}))
    return out


class C17(Monitor):
    prop = "C17"
    hooks = ("move",)

    def on_step(self, ctx):
        s = ctx.s
        for mech, msg, w in check_c17(s, ctx.builtin_only or ctx.trips_builtin):
            ctx.violate("C17", mech, msg, **w)
        ctx.count("c17_states_checked")
        ctx.count("c17_assigned_requests", sum(1 for r in s.requests.values() if r.dispatched_vehicle is not None))
        # record cleared when the vehicle is redirected / stopped / runs dry: the request is offered again
        for v in s.vehicles.values():
            p = ctx.prev.vehicles.get(v.id)
            if p is None or aname(p) != "DispatchTrip":
                continue
            rid = p.vehicle_state.request_id
            if aname(v) == "DispatchTrip" and v.vehicle_state.instance_id == p.vehicle_state.instance_id:
                continue
            r = s.requests.get(rid)
            if r is not None:
                ctx.count("c17_interrupted_dispatches")
                if r.dispatched_vehicle == v.id:
                    # covered by the stale-assignment rule above unless it re-dispatched to the same request
                    pass
        for ev in ctx.H.get("out_of_energy", []):
            vb = ev["sim_before"].vehicles.get(ev["vid"])
            if vb is not None and aname(vb) == "DispatchTrip":
                ctx.count("c17_out_of_energy_en_route")
        # instructions of the extra generator that reached a vehicle en route and left it where it was (refused)
        for name, _t, ins, _sim in ctx.gen_log:
            if not name.startswith("Hostile"):
                continue
            for i in ins:
                p = ctx.prev.vehicles.get(i.vehicle_id)
                v = s.vehicles.get(i.vehicle_id)
                if p is not None and v is not None and aname(p) == "DispatchTrip" and aname(v) == "DispatchTrip" and v.vehicle_state.instance_id == p.vehicle_state.instance_id:
                    ctx.count("c17_refused_instructions_en_route")
