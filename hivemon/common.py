"""shared helpers: paths, quiet execution, hive imports used everywhere."""
from __future__ import annotations

import contextlib
import io
import logging
import os
import sys
from pathlib import Path

ROOT = Path(os.environ.get("HIVEMON_ROOT", Path(__file__).resolve().parent.parent))
REPO = Path(os.environ.get("HIVEMON_REPO", "/repo"))
EVIDENCE = Path(os.environ.get("HIVEMON_EVIDENCE", ROOT / "evidence"))
PY = "/venv/bin/python"


def scratch_base() -> Path:
    """scratch root for generated scenarios and worker files (never under /repo or /verif)."""
    base = os.environ.get("HIVEMON_SCRATCH") or os.environ.get("TMPDIR") or "/tmp"
    p = Path(base) / "hivemon"
    p.mkdir(parents=True, exist_ok=True)
    return p


def silence_logging():
    logging.disable(logging.CRITICAL)


@contextlib.contextmanager
def quiet_stdout():
    """hive prints paths / rich tables on stdout; keep the check's stdout for verdict lines."""
    buf = io.StringIO()
    with contextlib.redirect_stdout(buf):
        yield buf


def seed_from_env(default: int = 0) -> int:
    try:
        return int(os.environ.get("VERIF_SEED", default))
    except ValueError:
        return default


def eprint(*a, **k):
    print(*a, file=sys.stderr, **k)
    sys.stderr.flush()
