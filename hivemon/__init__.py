"""hivemon: runtime monitors for NREL/hive (see /verif/DESIGN.md)."""
