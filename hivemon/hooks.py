"""harness-side observation hooks (no repository edits).

Many hive call sites bind functions with ``from m import f``; ``patch_everywhere`` therefore rebinds
every module-level and class-level attribute that *is* the original object. Every wrapper records
and returns the original result unchanged (a raising contract would abort the execution it observes)
and counts its calls; a deciding hook with zero calls makes a run inconclusive.
"""
from __future__ import annotations

import collections
import functools
import os
import sys
from typing import Any, Callable, Dict, List

ENABLED = os.environ.get("HIVEMON_HOOKS", "1") != "0"


class Recorder:
    def __init__(self):
        self.events: Dict[str, List[Any]] = collections.defaultdict(list)
        self.calls: collections.Counter = collections.Counter()
        self.stack: List[Dict[str, Any]] = []  # open move() frames

    def clear(self):
        self.events = collections.defaultdict(list)
        self.stack = []

    def add(self, kind: str, payload: Any):
        self.events[kind].append(payload)
        self.calls[kind] += 1


REC = Recorder()
_installed: Dict[str, bool] = {}
_patched: List[tuple] = []  # (holder, attr, original) for uninstall


def _all_hive_modules():
    return [m for n, m in list(sys.modules.items()) if n.startswith("nrel.hive") and m is not None]


def patch_everywhere(orig: Callable, wrapper: Callable) -> int:
    n = 0
    for m in _all_hive_modules():
        for name, val in list(vars(m).items()):
            if val is orig:
                setattr(m, name, wrapper)
                _patched.append((m, name, orig))
                n += 1
            elif isinstance(val, type) and getattr(val, "__module__", "").startswith("nrel.hive"):
                for an, av in list(vars(val).items()):
                    if av is orig:
                        setattr(val, an, wrapper)
                        _patched.append((val, an, orig))
                        n += 1
    return n


def patch_method(cls, name: str, make_wrapper: Callable[[Callable], Callable]):
    orig = cls.__dict__.get(name)
    if orig is None:
        return 0
    if isinstance(orig, (staticmethod, classmethod)):
        f = orig.__func__
        w = type(orig)(make_wrapper(f))
    else:
        w = make_wrapper(orig)
    setattr(cls, name, w)
    _patched.append((cls, name, orig))
    return 1


def uninstall_all():
    for holder, attr, orig in reversed(_patched):
        setattr(holder, attr, orig)
    _patched.clear()
    _installed.clear()


def import_hive():
    """import every hive module whose globals may hold a reference we want to rebind."""
    import nrel.hive.app.hive_cosim  # noqa
    import nrel.hive.runner.local_simulation_runner  # noqa
    import nrel.hive.state.vehicle_state.charge_queueing  # noqa
    import nrel.hive.state.vehicle_state.charging_base  # noqa
    import nrel.hive.state.vehicle_state.charging_station  # noqa
    import nrel.hive.state.vehicle_state.dispatch_base  # noqa
    import nrel.hive.state.vehicle_state.dispatch_station  # noqa
    import nrel.hive.state.vehicle_state.dispatch_trip  # noqa
    import nrel.hive.state.vehicle_state.idle  # noqa
    import nrel.hive.state.vehicle_state.out_of_service  # noqa
    import nrel.hive.state.vehicle_state.repositioning  # noqa
    import nrel.hive.state.vehicle_state.reserve_base  # noqa
    import nrel.hive.state.vehicle_state.servicing_trip  # noqa
    import nrel.hive.state.vehicle_state.servicing_pooling_trip  # noqa
    import nrel.hive.state.vehicle_state.dispatch_pooling_trip  # noqa
    import nrel.hive.state.driver_state.human_driver_state.human_driver_state  # noqa
    import nrel.hive.state.driver_state.autonomous_driver_state.autonomous_available  # noqa
    import nrel.hive.state.driver_state.autonomous_driver_state.autonomous_driver_attributes  # noqa


# ------------------------------------------------------------------------------- individual hooks


def install_move_hooks():
    """move / traverse / out-of-energy: route before, experienced + remaining, vehicle before/after."""
    if _installed.get("move"):
        return
    import_hive()
    from nrel.hive.state.vehicle_state import vehicle_state_ops as vso
    from nrel.hive.model.roadnetwork import routetraversal as rt

    orig_move, orig_traverse, orig_oos = vso.move, rt.traverse, vso._go_out_of_service_on_empty

    @functools.wraps(orig_move)
    def move(sim, env, vehicle_id, *a, **k):
        frame = {"vid": vehicle_id, "before": sim.vehicles.get(vehicle_id), "sim_before": sim, "traverse": None, "oos": False}
        REC.stack.append(frame)
        try:
            res = orig_move(sim, env, vehicle_id, *a, **k)
        finally:
            REC.stack.pop()
        err, out = res
        frame["err"] = err
        frame["sim_after"] = out
        frame["after"] = out.vehicles.get(vehicle_id) if out is not None else None
        REC.add("move", frame)
        return res

    @functools.wraps(orig_traverse)
    def traverse(*a, **k):
        res = orig_traverse(*a, **k)
        route = k.get("route_estimate", a[0] if a else None)
        dur = k.get("duration_seconds", a[2] if len(a) > 2 else None)
        if REC.stack:
            REC.stack[-1]["traverse"] = {"route": route, "duration": dur, "result": res}
        REC.add("traverse", {"route": route, "duration": dur, "result": res})
        return res

    @functools.wraps(orig_oos)
    def oos(sim, env, vehicle_id, *a, **k):
        if REC.stack:
            REC.stack[-1]["oos"] = True
        res = orig_oos(sim, env, vehicle_id, *a, **k)
        REC.add("out_of_energy", {"vid": vehicle_id, "sim_before": sim, "result": res})
        return res

    patch_everywhere(orig_move, move)
    patch_everywhere(orig_traverse, traverse)
    patch_everywhere(orig_oos, oos)
    _installed["move"] = True


def install_charge_hook():
    if _installed.get("charge"):
        return
    import_hive()
    from nrel.hive.state.vehicle_state import vehicle_state_ops as vso

    orig = vso.charge

    @functools.wraps(orig)
    def charge(sim, env, vehicle_id, station_id, charger_id, *a, **k):
        res = orig(sim, env, vehicle_id, station_id, charger_id, *a, **k)
        err, out = res
        REC.add(
            "charge",
            {
                "vid": vehicle_id,
                "sid": station_id,
                "cid": charger_id,
                "v0": sim.vehicles.get(vehicle_id),
                "s0": sim.stations.get(station_id),
                "v1": out.vehicles.get(vehicle_id) if out is not None else None,
                "s1": out.stations.get(station_id) if out is not None else None,
                "err": err,
                "dt": sim.sim_timestep_duration_seconds,
            },
        )
        return res

    patch_everywhere(orig, charge)
    _installed["charge"] = True


def install_apply_hook():
    if _installed.get("apply"):
        return
    import_hive()
    from nrel.hive.state.simulation_state.update import step_simulation_ops as sso

    orig = sso.apply_instructions

    @functools.wraps(orig)
    def apply_instructions(sim, env, instructions, *a, **k):
        out = orig(sim, env, instructions, *a, **k)
        REC.add("apply", {"before": sim, "instructions": tuple(instructions), "after": out})
        return out

    patch_everywhere(orig, apply_instructions)
    _installed["apply"] = True
    return orig


def real_apply_instructions():
    """the unwrapped apply_instructions (monitors re-apply single instructions through the real code)."""
    from nrel.hive.state.simulation_state.update import step_simulation_ops as sso

    f = sso.apply_instructions
    return getattr(f, "__wrapped__", f)


def install_driver_hooks():
    if _installed.get("driver"):
        return
    import_hive()
    from nrel.hive.state.driver_state.autonomous_driver_state.autonomous_available import AutonomousAvailable
    from nrel.hive.state.driver_state.human_driver_state.human_driver_state import HumanAvailable, HumanUnavailable

    def mk(orig):
        @functools.wraps(orig)
        def w(self, sim, env, previous_instructions=None):
            i = orig(self, sim, env, previous_instructions)
            REC.add("driver_instruction", {"driver": type(self).__name__, "vid": getattr(self.attributes, "vehicle_id", None), "instruction": i, "t": int(sim.sim_time), "previous": previous_instructions})
            return i

        return w

    classes = [AutonomousAvailable, HumanAvailable, HumanUnavailable]
    try:
        from nrel.hive.state.driver_state.autonomous_driver_state.autonomous_charging import AutonomousCharging  # type: ignore

        classes.append(AutonomousCharging)
    except Exception:
        pass
    for cls in classes:
        patch_method(cls, "generate_instruction", mk)
    _installed["driver"] = True


def install_generator_hooks():
    """Dispatcher / ChargingFleetManager proposals (class-level, works for instances hive builds itself)."""
    if _installed.get("generators"):
        return
    import_hive()
    from nrel.hive.dispatcher.instruction_generator.charging_fleet_manager import ChargingFleetManager
    from nrel.hive.dispatcher.instruction_generator.dispatcher import Dispatcher

    def mk(kind):
        def deco(orig):
            @functools.wraps(orig)
            def w(self, simulation_state, environment):
                res = orig(self, simulation_state, environment)
                REC.add(kind, {"sim": simulation_state, "env": environment, "instructions": tuple(res[1]), "t": int(simulation_state.sim_time)})
                return res

            return w

        return deco

    patch_method(Dispatcher, "generate_instructions", mk("dispatcher"))
    patch_method(ChargingFleetManager, "generate_instructions", mk("cfm"))
    _installed["generators"] = True


def install_assignment_hook():
    if _installed.get("assignment"):
        return
    import_hive()
    from nrel.hive.dispatcher.instruction_generator import assignment_ops

    orig = assignment_ops.find_assignment

    @functools.wraps(orig)
    def find_assignment(assignees, targets, cost_fn, *a, **k):
        res = orig(assignees, targets, cost_fn, *a, **k)
        REC.add("find_assignment", {"assignees": tuple(assignees), "targets": tuple(targets), "result": res})
        return res

    patch_everywhere(orig, find_assignment)
    _installed["assignment"] = True


def install_mechatronics_hooks():
    """pre/post-conditions material for consume_energy / idle / add_energy on every real call."""
    if _installed.get("mech"):
        return
    import_hive()
    from nrel.hive.model.vehicle.mechatronics.bev import BEV
    from nrel.hive.model.vehicle.mechatronics.ice import ICE

    def mk_consume(orig):
        @functools.wraps(orig)
        def w(self, vehicle, route, *a, **k):
            out = orig(self, vehicle, route, *a, **k)
            REC.add("consume_energy", {"mech": self, "v0": vehicle, "route": route, "v1": out})
            return out

        return w

    def mk_idle(orig):
        @functools.wraps(orig)
        def w(self, vehicle, time_seconds, *a, **k):
            out = orig(self, vehicle, time_seconds, *a, **k)
            REC.add("idle", {"mech": self, "v0": vehicle, "dt": time_seconds, "v1": out})
            return out

        return w

    def mk_add(orig):
        @functools.wraps(orig)
        def w(self, vehicle, charger, time_seconds, *a, **k):
            out = orig(self, vehicle, charger, time_seconds, *a, **k)
            REC.add("add_energy", {"mech": self, "v0": vehicle, "charger": charger, "dt": time_seconds, "v1": out[0], "t_used": out[1]})
            return out

        return w

    for cls in (BEV, ICE):
        patch_method(cls, "consume_energy", mk_consume)
        patch_method(cls, "idle", mk_idle)
        patch_method(cls, "add_energy", mk_add)
    _installed["mech"] = True


def install_route_hooks():
    if _installed.get("route"):
        return
    import_hive()
    from nrel.hive.model.roadnetwork.haversine_roadnetwork import HaversineRoadNetwork
    from nrel.hive.model.roadnetwork.osm.osm_roadnetwork import OSMRoadNetwork

    def mk(orig):
        @functools.wraps(orig)
        def w(self, origin, destination, *a, **k):
            r = orig(self, origin, destination, *a, **k)
            REC.add("route", {"net": self, "o": origin, "d": destination, "route": r})
            return r

        return w

    for cls in (HaversineRoadNetwork, OSMRoadNetwork):
        patch_method(cls, "route", mk)
    _installed["route"] = True


def install_tie_counters():
    """evidence for C01: how often the code faced a tie whose resolution could depend on iteration order."""
    if _installed.get("ties"):
        return
    import_hive()
    from nrel.hive.dispatcher.instruction_generator import assignment_ops
    from nrel.hive.dispatcher.instruction_generator.dispatcher import Dispatcher

    orig_rank = assignment_ops.nearest_shortest_queue_ranking

    @functools.wraps(orig_rank)
    def ranking(vehicle, station, env, *a, **k):
        res = orig_rank(vehicle, station, env, *a, **k)
        try:
            mech = env.mechatronics.get(vehicle.mechatronics_id)
            ranks = []
            for cid in station.on_shift_access_chargers:
                ch = env.chargers.get(cid)
                cs = station.state.get(cid)
                if ch is None or cs is None or mech is None or not mech.valid_charger(ch):
                    continue
                if cs.total_chargers == 0:
                    continue
                ranks.append((cs.enqueued_vehicles / cs.total_chargers, cid))  # the queue factor that decides the rank at one station
            vals = [r for r, _ in ranks]
            if len(vals) != len(set(vals)):
                REC.calls["tie_plug_rank"] += 1
        except Exception:
            pass
        return res

    patch_everywhere(orig_rank, ranking)

    def mk_disp(orig):
        @functools.wraps(orig)
        def w(self, simulation_state, environment):
            res = orig(self, simulation_state, environment)
            ins = res[1]
            vids = [i.vehicle_id for i in ins]
            if len(vids) != len(set(vids)):
                REC.calls["tie_multi_fleet_double_proposal"] += 1
            if len(environment.fleet_ids) > 1:
                REC.calls["dispatcher_multi_fleet_calls"] += 1
            return res

        return w

    patch_method(Dispatcher, "generate_instructions", mk_disp)
    from nrel.hive.util.h3_ops import H3Ops

    orig_ne = H3Ops.__dict__["nearest_entity"]
    f = orig_ne.__func__

    def nearest_entity(cls, *a, **k):
        # observe the distances the search evaluates: a tie for the minimum between valid entities in different
        # search cells is decided by the order in which the ring's cells are visited
        seen = {}
        df, iv = k.get("distance_function"), k.get("is_valid")
        if df is not None and iv is not None:
            def df2(e, df=df):
                d = df(e)
                seen.setdefault(getattr(e, "id", id(e)), [d, None, getattr(e, "geoid", None)])[0] = d
                return d

            def iv2(e, iv=iv):
                ok = iv(e)
                seen.setdefault(getattr(e, "id", id(e)), [None, ok, getattr(e, "geoid", None)])[1] = ok
                return ok

            k = dict(k, distance_function=df2, is_valid=iv2)
        res = f(cls, *a, **k)
        REC.calls["nearest_entity_calls"] += 1
        try:
            if res is not None and seen:
                best = seen.get(getattr(res, "id", None), [None])[0]
                res_cell = k.get("sim_h3_search_resolution")
                import h3 as _h3

                tied = [i for i, (d, ok, g) in seen.items() if ok and d == best]
                cells = {_h3.h3_to_parent(seen[i][2], res_cell) for i in tied if seen[i][2] and res_cell is not None}
                if len(tied) > 1:
                    REC.calls["tie_nearest_entity"] += 1
                    if len(cells) > 1:
                        REC.calls["tie_nearest_entity_across_search_cells"] += 1
        except Exception:
            pass
        return res

    H3Ops.nearest_entity = classmethod(nearest_entity)
    _patched.append((H3Ops, "nearest_entity", orig_ne))
    _installed["ties"] = True


def install(names):
    if not ENABLED:
        return
    table = {
        "move": install_move_hooks,
        "charge": install_charge_hook,
        "apply": install_apply_hook,
        "driver": install_driver_hooks,
        "generators": install_generator_hooks,
        "assignment": install_assignment_hook,
        "mech": install_mechatronics_hooks,
        "route": install_route_hooks,
        "ties": install_tie_counters,
    }
    for n in names:
        table[n]()
