"""C08 - location indexes always agree with the entities."""
from __future__ import annotations

import collections
import random
from typing import Any, Dict

from hivemon.checks.common import BUILTIN, hostile_stack, run_check, shipped_case, std_summary, trace_case

PROFILE = {"n_vehicles": (3, 16), "n_requests": (40, 260), "colocate": 0.5, "spread": 0.02, "timeouts": [30, 60, 600], "dts": [7, 30, 60, 120, 300]}


def run_ops(case: Dict[str, Any]) -> Dict[str, Any]:
    """random add / modify-move / remove / pop sequences straight on simulation_state_ops; the reference model
    (indexes recomputed from the entity maps) is compared after every operation."""
    import dataclasses
    import logging

    logging.disable(logging.CRITICAL)
    import h3
    from returns.result import Failure

    from nrel.hive.resources.mock_lobster import mock_base_from_geoid, mock_request_from_geoids, mock_sim, mock_station_from_geoid, mock_vehicle_from_geoid
    from nrel.hive.state.simulation_state import simulation_state_ops as sso

    from hivemon.fingerprint import fp_state
    from hivemon.monitors.index import check_index

    rnd = random.Random(case["seed"])
    viol, vcount, cnt = [], collections.Counter(), collections.Counter()

    def violate(mech, msg, **w):
        vcount[("C08", mech)] += 1
        if vcount[("C08", mech)] <= 3:
            viol.append({"property": "C08", "mechanism": mech, "message": msg, "step": None, "witness": {k: str(v)[:500] for k, v in w.items()}})

    base = (39.75, -104.99)

    def geo():
        r = rnd.random()
        if r < 0.3:  # a handful of cells inside one search cell
            return h3.geo_to_h3(base[0] + rnd.choice([0, 1e-5, 2e-5, 3e-5]), base[1], 15)
        if r < 0.6:
            return h3.geo_to_h3(base[0] + rnd.uniform(-0.002, 0.002), base[1] + rnd.uniform(-0.002, 0.002), 15)
        return h3.geo_to_h3(base[0] + rnd.uniform(-0.05, 0.05), base[1] + rnd.uniform(-0.05, 0.05), 15)

    def run_trial():
        sim = mock_sim(h3_search_res=rnd.choice([6, 7, 9, 10, 12]))
        ids = {"v": set(), "r": set(), "s": set(), "b": set()}
        history = []
        visited = collections.defaultdict(list)
        for op in range(case["ops"]):
            kind = rnd.choice("vvrrsb")
            r = rnd.random()
            pool = sorted(ids[kind])
            cnt["c08_ops"] += 1
            before = sim
            desc = None
            if r < 0.35 or not pool:
                i = f"{kind}{rnd.randint(0, 9)}"
                if i in ids[kind]:
                    continue  # re-adding an existing id is misuse (DESIGN 6)
                g = geo()
                e = {"v": lambda: mock_vehicle_from_geoid(vehicle_id=i, geoid=g), "r": lambda: mock_request_from_geoids(request_id=i, origin=g, destination=geo()), "s": lambda: mock_station_from_geoid(station_id=i, geoid=g), "b": lambda: mock_base_from_geoid(base_id=i, geoid=g)}[kind]()
                x = rnd.random()
                extra = None
                if x < 0.2:
                    # several new entities in one call (a second shift of vehicles, a new station), some of them into cells that
                    # are already occupied
                    j = next((f"{kind}{q}" for q in range(10, 40) if f"{kind}{q}" not in ids[kind]), None)
                    g2 = rnd.choice([g, geo()] + [gg for vs in visited.values() for gg in vs[-1:]][:3])
                    extra = {"v": lambda: mock_vehicle_from_geoid(vehicle_id=j, geoid=g2), "r": lambda: mock_request_from_geoids(request_id=j, origin=g2, destination=geo()), "s": lambda: mock_station_from_geoid(station_id=j, geoid=g2), "b": lambda: mock_base_from_geoid(base_id=j, geoid=g2)}[kind]() if j else None
                    res = sso.add_entities_safe(sim, [e] + ([extra] if extra is not None else []))
                    cnt["c08_batch_adds"] += 1
                else:
                    res = sso.add_entity_safe(sim, e) if x < 0.75 else {"v": sso.add_vehicle_safe, "r": sso.add_request_safe, "s": sso.add_station_safe, "b": sso.add_base_safe}[kind](sim, e)
                desc = f"add {i}@{g}" + (f" + {extra.id}@{extra.geoid}" if extra is not None else "")
                if isinstance(res, Failure):
                    violate("add-refused", f"adding new entity {i} was refused: {res.failure()}")
                    continue
                sim = res.unwrap()
                ids[kind].add(i)
                visited[i].append(g)
                if extra is not None:
                    ids[kind].add(extra.id)
                    visited[extra.id].append(extra.geoid)
                cnt["c08_adds"] += 1
            elif r < 0.72:
                i = rnd.choice(pool + ["zz"])
                # move inside the search cell, across, or back to a previously visited cell
                g = rnd.choice(visited[i]) if visited.get(i) and rnd.random() < 0.3 else geo()
                desc = f"modify {i}->{g}"
                if kind == "v" and i in sim.vehicles and rnd.random() < 0.25:
                    # several vehicles relocated in one call (an external rebalancing model), handed over as a list, a tuple or
                    # a one-shot iterator - the argument is typed Iterable
                    batch = [(i, g)] + [(x, geo()) for x in [y for y in sorted(sim.vehicles) if y != i][: rnd.randint(0, 2)]]
                    ents = [sim.vehicles[x].modify_position(sim.road_network.position_from_geoid(gx)) for x, gx in batch]
                    form = rnd.choice(["list", "tuple", "generator", "map"])
                    arg = ents if form == "list" else tuple(ents) if form == "tuple" else (e for e in ents) if form == "generator" else map(lambda e: e, ents)
                    desc = f"modify_entities({form}) {batch}"
                    res = sso.modify_entities_safe(sim, arg)
                    cnt[f"c08_batch_modifies_{form}"] += 1
                    if not isinstance(res, Failure):
                        for x, gx in batch[1:]:
                            visited[x].append(gx)
                elif kind == "v":
                    e = sim.vehicles[i].modify_position(sim.road_network.position_from_geoid(g)) if i in sim.vehicles else mock_vehicle_from_geoid(vehicle_id=i, geoid=g)
                    if rnd.random() < 0.5:
                        res = sso.modify_vehicle_safe(sim, e)
                    else:
                        err, out = sso.modify_vehicle(sim, e)
                        res = Failure(err) if err is not None or out is None else None
                        if res is None:
                            class _Ok:
                                def unwrap(self_inner):
                                    return out
                            res = _Ok()
                elif kind == "r":
                    e = dataclasses.replace(sim.requests[i], position=sim.road_network.position_from_geoid(g)) if i in sim.requests else mock_request_from_geoids(request_id=i, origin=g, destination=g)
                    res = sso.modify_request_safe(sim, e)
                elif kind == "s":
                    if i in sim.stations:
                        same = rnd.random() < 0.5
                        e = dataclasses.replace(sim.stations[i], balance=rnd.random()) if same else dataclasses.replace(sim.stations[i], position=sim.road_network.position_from_geoid(g))
                        res = sso.modify_station_safe(sim, e)
                        if not same and g != sim.stations[i].geoid:
                            cnt["c08_station_move_attempts"] += 1
                            if not isinstance(res, Failure):
                                violate("station-moved", f"modify_station accepted a new location for {i}")
                    else:
                        res = sso.modify_station_safe(sim, mock_station_from_geoid(station_id=i, geoid=g))
                else:
                    if i in sim.bases:
                        same = rnd.random() < 0.4
                        e = dataclasses.replace(sim.bases[i], available_stalls=sim.bases[i].available_stalls) if same else dataclasses.replace(sim.bases[i], position=sim.road_network.position_from_geoid(g))
                        res = sso.modify_base_safe(sim, e)
                        if not same and g != sim.bases[i].geoid:
                            cnt["c08_base_move_attempts"] += 1
                            if not isinstance(res, Failure):
                                violate("base-moved", f"modify_base accepted a new location for {i}")
                    else:
                        res = sso.modify_base_safe(sim, mock_base_from_geoid(base_id=i, geoid=g))
                if not isinstance(res, Failure):
                    sim = res.unwrap()
                    cnt["c08_modifies"] += 1
                    if i in ids[kind]:
                        visited[i].append(g)
                    else:
                        # modifying an unknown id must not bring it into being half-way
                        if fp_state(sim, ids=True) != fp_state(before, ids=True):
                            violate("unknown-id-modified-something", f"modify of unknown id {i} changed the simulation")
                else:
                    cnt["c08_refused"] += 1
            else:
                i = rnd.choice(pool + ["zz"])
                desc = f"remove {i}"
                if kind == "v" and rnd.random() < 0.3:
                    res = sso.pop_vehicle_safe(sim, i)
                    if not isinstance(res, Failure):
                        sim, popped = res.unwrap()
                        if popped.id != i:
                            violate("pop-returned-other-vehicle", f"pop of {i} returned {popped.id}")
                        ids[kind].discard(i)
                        cnt["c08_removes"] += 1
                        res = None
                else:
                    res = {"v": sso.remove_vehicle_safe, "r": sso.remove_request_safe, "s": sso.remove_station_safe, "b": sso.remove_base_safe}[kind](sim, i)
                if res is not None:
                    if not isinstance(res, Failure):
                        sim = res.unwrap()
                        ids[kind].discard(i)
                        cnt["c08_removes"] += 1
                    else:
                        cnt["c08_refused"] += 1
            history.append(desc)
            if isinstance(sim, type(before)) and sim is not before:
                pass
            if (i if desc else None) == "zz" and fp_state(sim, ids=True) != fp_state(before, ids=True):
                violate("unknown-id-changed-something", f"operation on unknown id changed the simulation: {desc}")
            for mech, msg in check_index(sim):
                violate(mech, f"after {desc}: {msg}", history=history[-6:])
            cnt["c08_states_checked"] += 1
            for kk, x in (("vehicles", "v"), ("requests", "r"), ("stations", "s"), ("bases", "b")):
                if set(getattr(sim, kk)) != ids[x]:
                    violate("entity-set-differs", f"after {desc}: {kk} = {sorted(getattr(sim, kk))} expected {sorted(ids[x])}", history=history[-6:])
                    ids[x] = set(getattr(sim, kk))

    import os
    import traceback

    for trial in range(case["trials"]):
        try:
            run_trial()
        except Exception as e:  # an operation under test raised: that sequence did not complete
            frames = traceback.extract_tb(e.__traceback__)
            where = next((f"{os.path.basename(f.filename)}:{f.name}" for f in reversed(frames) if "/nrel/hive/" in f.filename), None)
            if where is None:
                raise
            violate(f"exception:{type(e).__name__}@{where}", f"{type(e).__name__}: {e}", traceback=traceback.format_exc()[-1500:])
    return {"id": case["id"], "violations": viol, "violation_counts": {f"{p}|{m}": n for (p, m), n in vcount.items()}, "counters": dict(cnt), "summary": {"ops_seed": case["seed"], "trials": case["trials"], "ops": case["ops"]}}


def build_cases(tier, seed):
    cases = []
    nops, trials = (32, 60) if tier == "quick" else (128, 200)
    for j in range(nops):
        cases.append({"engine": "c08_ops", "id": f"C08-ops{j}", "seed": seed * 1000 + j, "trials": trials, "ops": 80})
    n, steps = (48, 200) if tier == "quick" else (400, 450)
    for i in range(n):
        s = seed * 100000 + 8000 + i
        prof = dict(PROFILE)
        prof["network"] = ["euclidean", "grid", "euclidean", "denver"][i % 4]
        ctrl = BUILTIN if i % 2 == 0 else hostile_stack(p=0.3, builtin=True)
        if i % 12 == 7:
            # a coarser sim_h3_resolution on the straight-line network, without requests (DESIGN 6)
            prof.update({"network": "euclidean", "loc_res": [12, 13, 14][(i // 12) % 3], "n_requests": (0, 0), "soc": [0.03, 0.08, 0.2, 0.5]})
        cases.append(trace_case("C08", i, s, prof, ctrl, steps, ["C08"], opts=({"inject_requests": {"every": 4, "public": False}, "cosim_ops": {"every": 6, "kinds": ["add_vehicle", "append_plugs"]}} if i % 3 == 1 else {})))
    if tier == "thorough":
        for w in ("denver_downtown/denver_demo.yaml", "denver_downtown/denver_demo_fleets.yaml", "manhattan/manhattan.yaml"):
            cases.append(shipped_case("C08", w, 300 if "manh" not in w else 100, ["C08"], tag="b"))
    return cases


FLOORS = {
    "quick": {"c08_ops": 100000, "c08_adds": 20000, "c08_modifies": 20000, "c08_removes": 15000, "c08_station_move_attempts": 1000, "c08_base_move_attempts": 500, "c08_states_checked": 100000, "c08_vehicle_moves": 10000, "c08_request_churn": 3000},
    "thorough": {"c08_ops": 1500000, "c08_adds": 300000, "c08_modifies": 300000, "c08_removes": 200000, "c08_station_move_attempts": 15000, "c08_base_move_attempts": 8000, "c08_states_checked": 1500000, "c08_vehicle_moves": 200000, "c08_request_churn": 60000},
}


def main(tier, seed):
    cases = build_cases(tier, seed)

    def summarize(v, results, by_id):
        v.rule = (
            "(a) random operation sequences straight on simulation_state_ops (add / modify-move / remove / pop for vehicles, requests, stations, bases; moves inside a search cell, across, and back to a visited cell; several entities per cell; "
            "operations on unknown ids; search resolutions 6-12) with the eight index maps compared against maps recomputed from the four entity maps after every operation; (b) the same comparison after every step of scenario runs on all three "
            "network kinds under built-in and hostile control. non-trivial = a case with at least one entity removal or vehicle move; distinct = case hash"
        )
        v.assumptions = ["ids are unique; re-adding an existing id is misuse (DESIGN 6)"]
        tot, _ = std_summary(v, results, by_id, "c08_states_checked", FLOORS[tier])

    return run_check("C08", tier, seed, cases, summarize)
