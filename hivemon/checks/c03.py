"""C03 - every ride request is resolved exactly once."""
from hivemon.checks.common import BUILTIN, hostile_stack, shipped_case, simple_main, trace_case

PROFILE = {
    "n_vehicles": (1, 14),
    "n_requests": (40, 260),
    "timeouts": [1, 30, 59, 60, 120, 600],
    "soc": [0.02, 0.05, 0.15, 0.3, 0.6, 0.9, 1.0],
    "colocate": 0.4,
    "spread": 0.015,
    "dts": [7, 30, 45, 60, 61, 97, 120],
    "p_human": 0.15,
}


def build_cases(tier, seed):
    n, steps = (96, 220) if tier == "quick" else (2000, 500)
    cases = []
    for i in range(n):
        s = seed * 100000 + 3000 + i
        prof = dict(PROFILE)
        if i % 5 == 4:
            prof["network"] = "grid"
        if i % 7 == 6:
            prof["n_vehicles"] = (20, 40)
        if i % 3 == 0:
            ctrl = BUILTIN
        else:
            # interrupt attempts with all instruction types, double dispatch, re-dispatch
            ctrl = hostile_stack(p=[0.2, 0.4][i % 2], builtin=(i % 4 != 1), n=1 + (i % 6 == 5), kinds=None if i % 2 else ["DispatchTrip", "DispatchTrip", "Idle", "DispatchStation", "ChargeStation", "ReserveBase", "DispatchBase", "Reposition", "OutOfService", "ChargeBase"])
        cases.append(trace_case("C03", i, s, prof, ctrl, steps, ["C03"], opts=({"cosim_noops": 5 + i % 7} if i % 4 == 2 else {"inject_requests": {"every": 5, "public": i % 8 == 0}} if i % 4 == 0 else {"cosim_ops": {"every": 11, "kinds": ["add_vehicle"]}} if i % 8 == 3 else {})))
    if tier == "thorough":
        for w in ("denver_downtown/denver_demo.yaml", "denver_downtown/denver_demo_fleets.yaml"):
            cases.append(shipped_case("C03", w, 500, ["C03"], controller=hostile_stack(0.2), tag="h"))
            cases.append(shipped_case("C03", w, 700, ["C03"], tag="b"))
    return cases


main = simple_main(
    "C03",
    build_cases,
    "c03_pickups",
    {
        "quick": {"c03_adds": 2000, "c03_pickups": 300, "c03_cancels": 300, "c03_dropoffs": 200, "c03_interrupt_attempts": 50, "c03_loaded_vehicle_steps": 300},
        "thorough": {"c03_adds": 40000, "c03_pickups": 5000, "c03_cancels": 5000, "c03_dropoffs": 3000, "c03_interrupt_attempts": 1000, "c03_loaded_vehicle_steps": 5000, "c03_stranded_by_energy": 1},
    },
    "generated request streams (bursts, co-located requests, timeouts 1-600 s, fleets of 1-40) under built-in and hostile control (double dispatch, re-dispatch, every instruction type "
    "aimed at vehicles carrying passengers); an online ledger per request id is driven by the add/pickup/cancel/drop-off events delivered to a registered Handler and compared with "
    "SimulationState.requests, vehicle activities and balances after every step. non-trivial = at least one pickup; distinct = distinct case hash",
    ["pooling is not exercised (experimental, DESIGN 6)", "a vehicle going OutOfService is excused only when the out-of-energy hook announced it"],
)
