"""C06 - vehicles move continuously and no faster than the road allows."""
from hivemon.checks.common import hostile_stack, BUILTIN, run_check, shipped_case, std_summary, trace_case

PROFILE = {
    "n_vehicles": (2, 10),
    "n_requests": (30, 200),
    "soc": [0.05, 0.1, 0.3, 0.6, 0.9, 1.0],
    "dts": [1, 7, 30, 45, 60, 61, 90, 97, 120, 300, 900],
    "timeouts": [600, 601, 1800],
    "spread": 0.03,
    "colocate": 0.15,
    "p_human": 0.2,
}


def scripted_reposition(seed):
    return {"stack": ["Dispatcher", "ChargingFleetManager", {"hostile": {"p": 0.08, "kinds": ["Reposition", "DispatchBase", "DispatchStation"], "seed": seed}}]}


def build_cases(tier, seed):
    n, steps = (96, 220) if tier == "quick" else (900, 500)
    cases = []
    for i in range(n):
        s = seed * 100000 + 6000 + i
        prof = dict(PROFILE)
        prof["network"] = ["euclidean", "grid", "grid", "denver"][i % 4] if tier == "thorough" or i % 8 != 3 else "grid"
        if i % 8 == 3:
            prof["network"] = "denver"
        # benign control only (DESIGN 6): built-in generators, plus valid repositioning / base / station trips
        ctrl = BUILTIN
        if i % 6 == 1:
            # human drivers whose battery is full when the shift ends and who cannot charge at home: the built-in
            # driver logic sends them to a station, where they arrive with nothing to charge
            prof.update({"p_human": 0.8, "p_home_station": 0.2, "soc": [1.0, 1.0, 0.9995, 0.9], "p_ice": 0.0, "spread": 0.004, "network": "euclidean", "dts": [7, 30, 45, 60], "custom_mech": 0.0, "n_vehicles": (6, 12), "starts": [0, 1000, 3600, 43200, 86399, 30000, 60000]})
        if i % 6 == 4:
            # a client whose instructions are often unusable (wrong plug, no access): some vehicle's update fails step after
            # step while the others travel - the arrival clause is not judged in these runs, everything else is
            ctrl = hostile_stack(p=0.15, builtin=True)
        if i % 12 == 5 and prof["network"] != "denver":
            # a service area on both sides of the 180th meridian (journeys whose links cross it), short steps
            prof.update({"origin": [-16.85, 180.0], "dts": [1, 7, 30], "spread": 0.006})
        cases.append(trace_case("C06", i, s, prof, ctrl, steps, ["C06"]))
    if tier == "thorough":
        for w in ("denver_downtown/denver_demo.yaml", "denver_downtown/denver_demo_fleets.yaml", "denver_downtown/denver_demo_constrained_charging.yaml"):
            cases.append(shipped_case("C06", w, 700, ["C06"], tag="b"))
            cases.append(shipped_case("C06", w, 300, ["C06"], overrides={"sim": {"timestep_duration_seconds": 7}}, tag="dt7"))
            cases.append(shipped_case("C06", w, 300, ["C06"], overrides={"sim": {"timestep_duration_seconds": 97}}, tag="dt97"))
        cases.append(shipped_case("C06", "manhattan/manhattan.yaml", 120, ["C06"], tag="b"))
    return cases


FLOORS = {
    "quick": {"c06_moves": 10000, "c06_split_moves": 3000, "c06_journeys_completed": 800, "c06_progress_checks": 5000, "c06_arrivals": 800, "c06_arrivals_at_station_with_full_battery": 3, "c06_stored_routes_compared_with_the_previous_step": 5000},
    "thorough": {"c06_moves": 200000, "c06_split_moves": 60000, "c06_journeys_completed": 15000, "c06_progress_checks": 100000, "c06_arrivals": 15000, "c06_arrivals_at_station_with_full_battery": 30, "c06_stored_routes_compared_with_the_previous_step": 20000},
}


def main(tier, seed):
    cases = build_cases(tier, seed)

    def summarize(v, results, by_id):
        v.rule = (
            "whole journeys under built-in control on the straight-line network, generated street grids (link length 3 m - 5 km, 5-130 km/h, one-ways, deleted edges) and the Denver graph, step lengths 1-900 s; "
            "every move() is observed through the harness hook (route before, driven part, remaining part, vehicle before/after) and judged by the C06 oracle. non-trivial = at least one move split mid-link; distinct = case hash"
        )
        v.assumptions = ["arrival and progress clauses are judged under built-in (benign) control only", "partial-link distances are straight-line distances between cells; links whose recorded length is below that line stretch the bound by the same factor", "speed*dt >= 3 m for the progress clause"]
        std_summary(v, results, by_id, "c06_split_moves", FLOORS[tier])

    return run_check("C06", tier, seed, cases, summarize)
