"""C20 - human drivers follow their shift schedule."""
from hivemon.checks.common import BUILTIN, simple_main, trace_case

PROFILE = {
    "n_vehicles": (4, 10),
    "p_human": 0.75,
    "n_requests": (150, 500),
    "soc": [0.3, 0.6, 0.9, 1.0],
    "colocate": 0.2,
    "spread": 0.012,
    "dts": [60, 97, 300, 600, 900, 1800, 3599],
    "timeouts": [600, 1800, 3600],
    "starts": [0, 1000, 3600, 43200, 86399, 82800],
    "steps": (300, 600),
    "network": "euclidean",
    "prices": "none",
    "custom_mech": 0.0,
}


def build_cases(tier, seed):
    n = 64 if tier == "quick" else 1500
    cases = []
    for i in range(n):
        s = seed * 100000 + 20000 + i
        prof = dict(PROFILE)
        if tier == "thorough":
            prof["steps"] = (400, 1200)
        from hivemon.gen.scenario import random_spec

        spec = random_spec(s, prof)
        steps = spec["sim"]["steps"]
        # requests throughout the run so that the dispatcher always has work
        c = trace_case("C20", i, s, prof, BUILTIN, steps, ["C20"], opts=({"cosim_noops": 5 + i % 6} if i % 3 == 1 else {}))
        if i % 4 == 2:
            # drivers who join the fleet between two calls (vehicle rows added through the public state operations)
            c["opts"] = dict(c.get("opts") or {}, cosim_ops={"every": 23 + i % 17, "kinds": ["add_human_vehicle"]})
        if i % 2 == 1:
            # simulation time is UTC whatever the host's time zone: every second case runs in a process set to another zone
            c["env"] = {"TZ": ["MST7", "JST-9", "CET-1CEST,M3.5.0,M10.5.0/3"][(i // 2) % 3]}
        cases.append(c)
    return cases


main = simple_main(
    "C20",
    build_cases,
    "c20_flips",
    {
        "quick": {"c20_availability_checks": 50000, "c20_flips": 300, "c20_on_shift_steps": 10000, "c20_dispatches_of_human_drivers": 300, "c20_drivers_joined_while_their_shift_was_running": 10},
        "thorough": {"c20_availability_checks": 1000000, "c20_flips": 5000, "c20_on_shift_steps": 200000, "c20_dispatches_of_human_drivers": 5000, "c20_drivers_joined_while_their_shift_was_running": 40},
    },
    "generated shift tables (random [start,end) incl. wrap past midnight, empty shifts, ends touching step boundaries, second granularity) x start times x step lengths that do not divide a day, runs of several days with requests "
    "throughout; an integer seconds-of-day model decides availability at the start of every step and is compared with driver_state.available, the driver_schedule events of the step and the Dispatcher's proposals. "
    "non-trivial = at least one availability flip; distinct = case hash",
    ["one human driver per private home base"],
)
