"""shared driver for the per-property checks."""
from __future__ import annotations

import json
import os
import random
import sys
import time
from typing import Any, Callable, Dict, List, Optional

from hivemon.common import eprint
from hivemon.drive import pool
from hivemon.verdict import Verdict, sum_counters, union_sets

BUILTIN = {"stack": ["Dispatcher", "ChargingFleetManager"]}


def hostile_stack(p=0.25, builtin=True, n=1, **kw):
    st: List[Any] = ["Dispatcher", "ChargingFleetManager"] if builtin else []
    for _ in range(n):
        h = {"p": p}
        h.update(kw)
        st.append({"hostile": h})
    return {"stack": st}


def trace_case(prop: str, i: int, seed: int, profile: Dict[str, Any], controller: Dict[str, Any], steps: int, monitors: List[str], opts: Optional[Dict[str, Any]] = None, spec: Optional[Dict[str, Any]] = None, tag: str = "") -> Dict[str, Any]:
    c: Dict[str, Any] = {
        "engine": "trace",
        "id": f"{prop}-{tag}{i}",
        "case_seed": seed,
        "controller": controller,
        "steps": steps,
        "monitors": monitors,
        "primary": prop,
        "opts": opts or {},
    }
    if spec is not None:
        c["spec"] = spec
    else:
        c["gen"] = {"seed": seed, "profile": profile}
    return c


def shipped_case(prop: str, which: str, steps: int, monitors: List[str], controller=None, overrides=None, opts=None, tag="") -> Dict[str, Any]:
    return {
        "engine": "trace",
        "id": f"{prop}-shipped-{which.split('/')[-1]}-{tag}",
        "case_seed": 0,
        "controller": controller or BUILTIN,
        "steps": steps,
        "monitors": monitors,
        "primary": prop,
        "opts": opts or {},
        "spec": {"shipped": which, "overrides": overrides or {}},
    }


def run_check(prop: str, tier: str, seed: int, cases: List[Dict[str, Any]], summarize: Callable[[Verdict, List[Dict[str, Any]], Dict[str, Dict[str, Any]]], None], timeout_s: float = 1500.0, hashseed: Optional[str] = "0", pre: Optional[Callable[[Verdict], None]] = None) -> int:
    v = Verdict(prop, tier, seed)
    t0 = time.time()
    by_id = {c["id"]: c for c in cases}
    results, problems = pool.run_cases(cases, timeout_s=timeout_s, hashseed=hashseed)
    v.add_results(results, by_id, problems)
    v.evaluations = len(results)
    if pre:
        pre(v)
    summarize(v, results, by_id)
    if not v.samples:
        for r in results[:4]:
            v.samples.append({"case": r.get("id"), "summary": r.get("summary"), "counters": {k: x for k, x in (r.get("counters") or {}).items() if x}})
    eprint(f"[{prop}] {len(results)}/{len(cases)} cases in {time.time()-t0:.1f}s; violations={len(v.violations)} problems={len(problems)}")
    return v.conclude()


def std_summary(v: Verdict, results, by_id, nontrivial_key: str, floors: Dict[str, int], extra_keys: Optional[List[str]] = None):
    """standard evidence: summed counters, union of sets; a case is non-trivial when counters[nontrivial_key] > 0."""
    tot = sum_counters(results)
    sets = union_sets(results)
    for r in results:
        if (r.get("counters") or {}).get(nontrivial_key, 0) > 0:
            v.nontrivial(by_id.get(r.get("id"), {"id": r.get("id")}))
    v.coverage["counters"] = tot
    v.coverage["observed_sets"] = {k: sorted(x) for k, x in sets.items()}
    v.coverage["hook_calls"] = sum_counters(results, "hook_calls")
    for name, minimum in floors.items():
        if name.startswith("set:"):
            v.floor(name, len(sets.get(name[4:], ())), minimum)
        else:
            v.floor(name, tot.get(name, 0), minimum)
    return tot, sets


def simple_main(prop: str, build_cases, nontrivial_key: str, floors: Dict[str, Dict[str, int]], rule: str, assumptions: List[str], timeout_s: float = 1500.0):
    """factory for checks whose cases all go through the trace engine and whose evidence is the summed counters."""

    def main(tier: str, seed: int) -> int:
        cases = build_cases(tier, seed)

        def summarize(v: Verdict, results, by_id):
            v.rule = rule
            v.assumptions = assumptions
            std_summary(v, results, by_id, nontrivial_key, floors[tier])

        return run_check(prop, tier, seed, cases, summarize, timeout_s=timeout_s)

    return main
