"""C11 - timed inputs take effect exactly once, at the right step."""
from hivemon.checks.common import BUILTIN, simple_main, trace_case

PROFILE = {
    "n_vehicles": (0, 3),
    "p_human": 0.0,
    "n_requests": (0, 120),
    "dts": [1, 7, 30, 60, 61, 97, 300],
    "timeouts": [1, 59, 60, 600, 601],
    "starts": [0, 0, 900, 1000, 3600, 9900, 86399, 99900],
    "steps": (30, 140),
    "network": "euclidean",
    "n_stations": (1, 5),
    "soc": [0.9],
}


def build_cases(tier, seed):
    n = 256 if tier == "quick" else 12000
    cases = []
    for i in range(n):
        s = seed * 100000 + 11000 + i
        prof = dict(PROFILE)
        prof["prices"] = ["station", "geoid", "station", "none", "geoid"][i % 5]
        prof["fleets"] = [0, 0, 2, 0][i % 4]
        if i % 3 == 0:
            prof["n_vehicles"] = (0, 0) if i % 6 else (1, 1)
        from hivemon.gen.scenario import random_spec

        steps = random_spec(s, prof)["sim"]["steps"]
        # no generators at all: nothing competes with the cancellation clock (drivers still act)
        ctrl = {"stack": []} if i % 2 == 0 else BUILTIN
        opts = {"cosim_noops": 4 + i % 5} if i % 3 == 1 else {}
        if i % 8 == 5:
            # a booking system hands requests in between calls, some under a departure time that has already passed
            opts = dict(opts, inject_requests={"every": 3, "public": not prof["fleets"], "backdate": True})
        cases.append(trace_case("C11", i, s, prof, ctrl, steps, ["C11"], opts=opts))
    # time stamps in inputs and logs are UTC whatever the host's time zone: every third case runs in a process set to another zone
    for k, c in enumerate(cases):
        if k % 3 == 2:
            c["env"] = {"TZ": ["MST7", "JST-9", "CET-1CEST,M3.5.0,M10.5.0/3"][(k // 3) % 3]}
    return cases


main = simple_main(
    "C11",
    build_cases,
    "c11_admissions",
    {
        "quick": {"c11_admissions": 2000, "c11_cancellations": 1500, "c11_expected_non_admissions": 500, "c11_tariff_readings": 50000, "c11_tariff_changes": 800, "c11_partial_price_windows": 60, "c11_contested_prices": 5},
        "thorough": {"c11_admissions": 20000, "c11_cancellations": 15000, "c11_expected_non_admissions": 5000, "c11_tariff_readings": 500000, "c11_tariff_changes": 15000, "c11_partial_price_windows": 1000, "c11_contested_prices": 50},
    },
    "generated (request file, price table, step length, start time, timeout) tuples run through the real crank with 0-3 vehicles, eager and lazy reading, int and ISO time formats; bursts, identical timestamps, gaps, departures before the start, "
    "exactly on and just off step boundaries, already expired on arrival; price tables by station id and by region (coarser than, equal to, finer than the search resolution), partial tables, unknown stations and plugs. A calendar model computed from the "
    "input numbers predicts the admission step, the cancellation step and the tariff in force for every step. non-trivial = at least one admission; distinct = case hash",
    ["requests that fail the fleet-membership admission rule may be admitted (at the right step) or not: the property does not speak about them", "two different keys naming the same station and plug in one window: either price is accepted"],
)
