"""C07 - a vehicle's activity is consistent with where it is (trace part; the systematic part lives in drive/systematic.py)."""
from hivemon.checks.common import BUILTIN, hostile_stack, run_check, shipped_case, std_summary, trace_case
from hivemon.drive.systematic import systematic_cases

PROFILE = {
    "n_vehicles": (3, 14),
    "n_requests": (30, 160),
    "soc": [0.03, 0.1, 0.3, 0.6, 0.9],
    "colocate": 0.4,
    "spread": 0.015,
    "dts": [7, 30, 60, 61, 97, 120, 300],
    "timeouts": [60, 600],
    "detached_base_station": 0.3,
}


def build_cases(tier, seed):
    n, steps = (72, 200) if tier == "quick" else (800, 450)
    cases = []
    for i in range(n):
        s = seed * 100000 + 7000 + i
        prof = dict(PROFILE)
        prof["network"] = ["euclidean", "euclidean", "grid", "grid", "euclidean", "denver"][i % 6]
        ctrl = hostile_stack(p=[0.2, 0.35][i % 2], builtin=(i % 3 != 2))
        if i % 6 == 3:
            # short steps, driveways and split junctions (links of less than a second), many trips, and a client that tells every
            # vehicle carrying passengers to stop, every step: the trip must go on to the destination all the same
            prof.update({"dts": [5, 7, 10], "grid": {"spurs": 0.6, "stubs": 0.3, "speeds": ["uniform", "varied", "mixed"][(i // 6) % 3]}, "n_requests": (150, 260), "n_vehicles": (6, 12), "soc": [0.6, 0.9], "timeouts": [600], "p_ice": 0.0})
            ctrl = {"stack": ["Dispatcher", "ChargingFleetManager", {"interrupt": {"states": ["ServicingTrip"], "p": 1.0, "kinds": ["Idle", "Idle", "DispatchStation", "DispatchBase", "Reposition"]}}]}
        opts = {"inject_requests": {"every": 6, "public": i % 10 == 7}} if i % 5 == 2 else {}
        if i % 6 == 0:
            # a co-simulation client that hands stations and bases back with other coordinates (to be refused)
            opts = dict(opts, cosim_ops={"every": 4, "kinds": ["try_move"]})
        if i % 12 == 10:
            # a coarser sim_h3_resolution on the straight-line network, charging and parking only (with requests the built-in
            # dispatcher cannot measure distances between the request cells and the vehicles' cells - DESIGN 6)
            prof.update({"network": "euclidean", "loc_res": [12, 13, 14][(i // 12) % 3], "n_requests": (0, 0), "soc": [0.03, 0.08, 0.2, 0.5]})
        if i % 12 == 4:
            # a client that writes older copies of vehicles back (with one more membership)
            opts = dict(opts, cosim_ops={"every": 5, "kinds": ["stale_write_back"]})
        cases.append(trace_case("C07", i, s, prof, ctrl, steps, ["C07"], opts=opts))
    cases += systematic_cases("C07", tier, seed)
    if tier == "thorough":
        for w in ("denver_downtown/denver_demo.yaml", "denver_downtown/denver_demo_fleets.yaml"):
            cases.append(shipped_case("C07", w, 500, ["C07"], controller=hostile_stack(0.2), tag="h"))
    return cases


FLOORS = {
    "quick": {"c07_stationary_checks": 10000, "c07_route_checks": 10000, "c07_pickups": 200, "c07_dropoffs": 200, "c07_reposition_checks": 100, "c07_trips_ended": 200, "c07_servicing_steps_with_at_most_two_links_left": 100, "sys_transitions": 20000, "sys_states": 3000, "cosim_stale_copy_written_back_from_another_place": 15},
    "thorough": {"c07_stationary_checks": 300000, "c07_route_checks": 300000, "c07_pickups": 5000, "c07_dropoffs": 5000, "c07_reposition_checks": 3000, "c07_trips_ended": 5000, "c07_servicing_steps_with_at_most_two_links_left": 2000, "sys_transitions": 500000, "sys_states": 50000, "cosim_stale_copy_written_back_from_another_place": 60},
}


def main(tier, seed):
    cases = build_cases(tier, seed)

    def summarize(v, results, by_id):
        v.rule = (
            "hostile controllers issue every instruction type from every activity with co-located, remote, missing and wrong-fleet targets on straight-line, grid and Denver networks; after every step "
            "(and in every state reached by the bounded systematic driver) stationary activities are compared with the target's location, route ends with vehicle and target, pickup/drop-off events with "
            "origin/destination. non-trivial = at least one stationary activity or systematic transition observed; distinct = case hash"
        )
        v.assumptions = ["loop routes (first start = last end) count as arrived (DESIGN 6)"]
        tot, _ = std_summary(v, results, by_id, "c07_stationary_checks", FLOORS[tier])
        for r in results:
            if (r.get("counters") or {}).get("sys_transitions", 0) > 0:
                v.nontrivial(by_id.get(r.get("id"), {"id": r.get("id")}))
        v.coverage["states"] = tot.get("sys_states", 0)
        v.coverage["transitions"] = tot.get("sys_transitions", 0)

    return run_check("C07", tier, seed, cases, summarize)
