"""C15 - the clock advances uniformly and stepping composes (differential executions of differently split runs)."""
from __future__ import annotations

import collections
import math
import random
from typing import Any, Dict, List

from hivemon.checks.common import run_check, std_summary

PROFILE = {
    "n_vehicles": (2, 10),
    "n_requests": (40, 220),
    "soc": [0.05, 0.1, 0.3, 0.6, 0.9],
    "colocate": 0.35,
    "spread": 0.015,
    "dts": [1, 7, 30, 60, 61, 97, 120, 300],
    "timeouts": [30, 60, 600],
    "p_human": 0.25,
    "steps": (60, 180),
}


def run_diff(case: Dict[str, Any]) -> Dict[str, Any]:
    import contextlib
    import io
    import os
    import sys

    from hivemon.common import quiet_stdout, silence_logging
    from hivemon.drive.tracer import Ctx, cleanup, load_case
    from hivemon.fingerprint import canon_reports, diff_states, fp_reports, fp_state

    silence_logging()
    import nrel.hive.app.hive_cosim as hc
    from nrel.hive.runner.local_simulation_runner import LocalSimulationRunner
    from nrel.hive.runner.runner_payload_ops import get_instruction_generator, update_instruction_generator

    rnd = random.Random(case["seed"])
    viol, vcount, cnt = [], collections.Counter(), collections.Counter()

    def violate(mech, msg, **w):
        vcount[("C15", mech)] += 1
        if vcount[("C15", mech)] <= 3:
            viol.append({"property": "C15", "mechanism": mech, "message": msg, "step": None, "witness": {k: (v if isinstance(v, (int, float, str, list, dict, type(None))) else str(v)[:600]) for k, v in w.items()}})

    spec = case["spec"]
    n = int(case["steps"])
    dt, start = spec["sim"]["dt"], spec["sim"]["start"]

    class Rec:
        def __init__(self):
            self.ev: List[str] = []
            self.t: List[int] = []
            self.all = collections.Counter()  # every report delivered over the run, canonical form

    def fresh():
        ctx = Ctx({"spec": spec, "controller": case.get("controller"), "opts": {"record_generators": False}, "case_seed": 0})
        rp = load_case(ctx)
        rec = Rec()
        h = ctx.handler
        orig = h.handle

        def handle(reports, runner_payload):
            rec.ev.append(fp_reports(reports))
            rec.all.update(canon_reports(reports))
            rec.t.append(int(runner_payload.s.sim_time))
            orig(reports, runner_payload)

        h.handle = handle
        return ctx, rp, rec

    def cosim_table(rp):
        """what hive_cosim keeps for a grid co-simulation client: the charge events of this simulation (multiset of rows)."""
        from nrel.hive.reporting.handler.vehicle_charge_events_handler import VehicleChargeEventsHandler

        h = next((x for x in rp.e.reporter.handlers if isinstance(x, VehicleChargeEventsHandler)), None)
        if h is None:
            return None
        ev = h.get_events()
        keys = sorted(ev.keys())
        return collections.Counter(zip(*[[str(x) for x in ev[k]] for k in keys])) if keys and all(len(ev[k]) == len(ev[keys[0]]) for k in keys) else "ragged"

    ctxs = []
    try:
        # reference: crank(1) x n
        ctx, rp, ref = fresh()
        ctxs.append(ctx)
        ref_states = []
        ref_full = []
        prev_t = int(rp.s.sim_time)
        if prev_t != start:
            violate("initial-clock-differs-from-start-time", f"loaded clock {prev_t}, configured start {start}")
        for k in range(n):
            with quiet_stdout():
                res = hc.crank(rp, 1)
            rp = res.runner_payload
            t = int(rp.s.sim_time)
            cnt["c15_ticks_checked"] += 1
            if t - prev_t != dt:
                violate("tick-differs-from-step-length", f"step {k}: clock went {prev_t} -> {t}, step length {dt}")
            if int(res.sim_time) != t:
                violate("crank-reports-other-time", f"crank returned sim_time {res.sim_time}, state says {t}")
            prev_t = t
            ref_states.append(fp_state(rp.s, ids=False))
            ref_full.append(rp.s)
        if len(ref.ev) != n:
            violate("flushes-differ-from-steps", f"{len(ref.ev)} flushes for {n} steps of crank(1)")
        ref_table = cosim_table(rp)
        # the table holds this simulation's charge records and nothing else
        ref_charges = sum(c for (k_, c) in ref.all.items() if k_[0] == "VEHICLE_CHARGE_EVENT") if ref_table is not None else 0
        if ref_table is not None and ref_table != "ragged":
            cnt["c15_cosim_charge_rows"] += sum(ref_table.values())
            if sum(ref_table.values()) != ref_charges:
                violate("cosim-charge-table-differs-from-the-charge-events-delivered", f"get_events() holds {sum(ref_table.values())} rows, the handlers were given {ref_charges} charge events in this simulation")
        # variants: random compositions
        for var in range(case.get("variants", 2)):
            parts = []
            left = n
            while left > 0:
                a = min(left, rnd.choice([1, 1, 2, 3, 5, 8, 13, rnd.randint(1, max(1, n // 2)), left]))
                parts.append(a)
                left -= a
            ctx, rp, rec = fresh()
            ctxs.append(ctx)
            done = 0
            inject = case.get("inject") and var == 1
            for a in parts:
                if inject and rp.u.step_update.instruction_generator_order:
                    # re-inject a generator between calls, as a co-simulation client would
                    name = rp.u.step_update.instruction_generator_order[0]
                    ig = rp.u.step_update.instruction_generators[name]
                    if type(ig).__name__ == name:
                        rp = update_instruction_generator(rp, ig)
                        cnt["c15_reinjections"] += 1
                if inject and done > 0 and var == 1 and cnt["c15_parts_seen"] % 3 == 2:
                    # ... or hands the payload the generators it already has
                    from nrel.hive.runner.runner_payload_ops import set_instruction_generators

                    rp = set_instruction_generators(rp, tuple(rp.u.step_update.ordered_instruction_generators))
                    cnt["c15_generator_swaps"] += 1
                cnt["c15_parts_seen"] += 1
                with quiet_stdout():
                    rp = hc.crank(rp, a).runner_payload
                done += a
                cnt["c15_boundaries_compared"] += 1
                f = fp_state(rp.s, ids=False)
                if f != ref_states[done - 1]:
                    violate("split-run-state-differs", f"after {done} steps as {parts[:12]}...: state differs from crank(1) x {done}", parts=parts[:30], diff=diff_states(ref_full[done - 1], rp.s, ids=False))
                    break
                if int(rp.s.sim_time) != start + done * dt:
                    violate("split-run-clock-differs", f"after {done} steps clock is {int(rp.s.sim_time)}, expected {start + done*dt}")
            if rec.ev != ref.ev[: len(rec.ev)] or len(rec.ev) != n:
                k = next((i for i, (x, y) in enumerate(zip(rec.ev, ref.ev)) if x != y), min(len(rec.ev), len(ref.ev)))
                violate("split-run-events-differ", f"events of step {k} differ between crank(1) x n and the split {parts[:12]} ({len(rec.ev)} vs {len(ref.ev)} flushes)", parts=parts[:30])
            tab = cosim_table(rp)
            if tab != ref_table and len(rec.ev) == n:
                cnt_a = sum(tab.values()) if isinstance(tab, collections.Counter) else tab
                cnt_b = sum(ref_table.values()) if isinstance(ref_table, collections.Counter) else ref_table
                violate("split-run-cosim-charge-table-differs", f"charge events kept for the co-simulation client: {cnt_a} rows after the split run {parts[:12]}, {cnt_b} after crank(1) x n", parts=parts[:30])
            cnt["c15_cosim_tables_compared"] += 1
            cnt["c15_compositions"] += 1
            cnt["c15_parts"] += len(parts)
        # deferred delivery: some calls are made with flush_events=False (their reports stay queued), the next flushing call
        # hands everything over - nothing may be lost or duplicated over the run, and the states are the same
        ctx, rp, rec = fresh()
        ctxs.append(ctx)
        done = 0
        parts = []
        left = n
        while left > 0:
            a = min(left, rnd.choice([1, 2, 3, 5, 9]))
            parts.append(a)
            left -= a
        for j, a in enumerate(parts):
            defer = j < len(parts) - 1 and rnd.random() < 0.5
            with quiet_stdout():
                rp = hc.crank(rp, a, flush_events=not defer).runner_payload
            done += a
            cnt["c15_deferred_flush_calls" if defer else "c15_flushing_calls_after_deferral"] += 1
            if fp_state(rp.s, ids=False) != ref_states[done - 1]:
                violate("split-run-state-differs", f"after {done} steps (some calls with flush_events=False): state differs from crank(1) x {done}", parts=parts[:30], diff=diff_states(ref_full[done - 1], rp.s, ids=False))
                break
        else:
            if rec.all != ref.all:
                lost, extra = ref.all - rec.all, rec.all - ref.all
                ex = next(iter(lost or extra))
                violate("deferred-flush-loses-or-duplicates-events", f"run with some calls made with flush_events=False delivered {sum(rec.all.values())} reports, crank(1) x n delivered {sum(ref.all.values())}: {sum(lost.values())} lost, {sum(extra.values())} extra, e.g. {ex[0]}", parts=parts[:30])
        # batch runner over the same interval
        spec2 = dict(spec)
        spec2["sim"] = dict(spec["sim"])
        off = case.get("end_offset", 0)  # end not on the step grid: the runner covers ceil((end-start)/dt) steps
        spec2["sim"]["end"] = start + n * dt - off
        ctx = Ctx({"spec": spec2, "controller": case.get("controller"), "opts": {"record_generators": False}, "case_seed": 0})
        rp = load_case(ctx)
        ctxs.append(ctx)
        rec = Rec()
        orig = ctx.handler.handle

        def handle(reports, runner_payload, orig=orig, rec=rec):
            rec.ev.append(fp_reports(reports))
            rec.all.update(canon_reports(reports))
            rec.t.append(int(runner_payload.s.sim_time))
            orig(reports, runner_payload)

        ctx.handler.handle = handle
        err = io.StringIO()
        with quiet_stdout(), contextlib.redirect_stderr(err):
            rp = LocalSimulationRunner.run(rp)
        exp_steps = math.ceil((spec2["sim"]["end"] - start) / dt)
        cnt["c15_batch_runs"] += 1
        if len(rec.ev) != exp_steps:
            violate("runner-step-count", f"runner made {len(rec.ev)} steps over [{start},{spec2['sim']['end']}) with step {dt}, expected {exp_steps}")
        elif exp_steps == n and off == 0:
            # (states and events are compared when the runner's configuration is the reference's: with an end time off the
            # step grid the configurations differ, and the time-to-charge ranking caps its estimates by the time left
            # until sim.end_time - a one-second difference there can legitimately rank stations differently)
            if fp_state(rp.s, ids=False) != ref_states[-1]:
                violate("runner-state-differs", f"final state of LocalSimulationRunner.run differs from crank(1) x {n}", diff=diff_states(ref_full[-1], rp.s, ids=False))
            if rec.ev != ref.ev:
                k = next((i for i, (x, y) in enumerate(zip(rec.ev, ref.ev)) if x != y), -1)
                violate("runner-events-differ", f"events of step {k} differ between the batch runner and crank(1) x n")
        if rec.t and rec.t != [start + (i + 1) * dt for i in range(len(rec.t))]:
            violate("runner-clock-not-uniform", f"runner clock sequence starts {rec.t[:5]}")
        nxt = LocalSimulationRunner.step(rp)
        cnt["c15_step_beyond_end_checks"] += 1
        if nxt is not None:
            violate("stepped-beyond-end-time", f"LocalSimulationRunner.step at t={int(rp.s.sim_time)} (end {spec2['sim']['end']}) did not refuse")
        # step() before the end advances exactly one step
        ctx = Ctx({"spec": spec2, "controller": case.get("controller"), "opts": {"record_generators": False}, "case_seed": 0})
        rp = load_case(ctx)
        ctxs.append(ctx)
        with quiet_stdout():
            one = LocalSimulationRunner.step(rp)
        if exp_steps > 0:
            if one is None or int(one.s.sim_time) != start + dt:
                violate("runner-step-wrong", f"LocalSimulationRunner.step from start gave {None if one is None else int(one.s.sim_time)}")
            elif n >= 1 and fp_state(one.s, ids=False) != ref_states[0]:
                violate("runner-step-state-differs", "one LocalSimulationRunner.step differs from crank(1)")
        # the two documented ways of running a scenario with the same generators: hive_cosim.load_scenario + crank, and what
        # run_sim does (load_config + load_simulation + LocalSimulationRunner.run) - same states, same events
        if case.get("loadpaths"):
            import shutil

            from hivemon.common import scratch_base
            from hivemon.gen.scenario import write_scenario
            from nrel.hive.reporting.handler.handler import Handler
            from nrel.hive.dispatcher.instruction_generator.charging_fleet_manager import ChargingFleetManager
            from nrel.hive.dispatcher.instruction_generator.dispatcher import Dispatcher
            from nrel.hive.initialization.load import load_config, load_simulation

            spec3 = dict(spec, sim=dict(spec["sim"], end=start + n * dt))
            wd = scratch_base() / f"case_p{os.getpid()}"
            kinds = {
                "none": lambda cfg: None,
                "empty": lambda cfg: (),  # no fleet-level control at all: the drivers alone decide
                "dispatcher-only": lambda cfg: (Dispatcher(cfg.dispatcher),),
                "as-a-list": lambda cfg: [Dispatcher(cfg.dispatcher), ChargingFleetManager(cfg.dispatcher)],
                "reversed": lambda cfg: (ChargingFleetManager(cfg.dispatcher), Dispatcher(cfg.dispatcher)),
            }
            for kind in case["loadpaths"]:
                outs = []
                for path in ("cosim", "batch"):
                    shutil.rmtree(wd, ignore_errors=True)
                    wd.mkdir(parents=True)
                    y = write_scenario(spec3, wd)
                    os.chdir(y.parent)
                    rec = Rec()

                    class H(Handler):
                        def handle(self, reports, runner_payload, rec=rec):
                            rec.all.update(canon_reports(reports))
                            rec.t.append(int(runner_payload.s.sim_time))

                        def close(self, runner_payload):
                            pass

                    with quiet_stdout(), contextlib.redirect_stderr(io.StringIO()):
                        cfg = load_config(y, "run")
                        if path == "cosim":
                            rp = hc.load_scenario(y, custom_instruction_generators=kinds[kind](cfg), output_suffix="run")
                            rp.e.reporter.add_handler(H())
                            rp = hc.crank(rp, n).runner_payload
                        else:
                            rp = load_simulation(cfg, custom_instruction_generators=kinds[kind](cfg))
                            rp.e.reporter.add_handler(H())
                            rp = LocalSimulationRunner.run(rp)
                    outs.append((fp_state(rp.s, ids=False), rec, rp.s))
                    for hh in getattr(rp.e.reporter, "handlers", []):
                        for attr in ("log_file", "instructions_file", "file"):
                            f_ = getattr(hh, attr, None)
                            if f_ is not None and hasattr(f_, "close"):
                                f_.close()
                cnt["c15_load_paths_compared"] += 1
                if kind == "empty":
                    cnt["c15_load_paths_compared_without_fleet_level_generators"] += 1
                (fa, ra, sa), (fb, rb, sb) = outs
                if fa != fb:
                    violate("batch-run-differs-from-cosim-run-of-the-same-arguments", f"generators '{kind}': state after {n} steps through load_scenario + crank differs from load_simulation + LocalSimulationRunner.run", generators=kind, diff=diff_states(sa, sb, ids=False))
                elif ra.all != rb.all:
                    lost, extra = ra.all - rb.all, rb.all - ra.all
                    violate("batch-run-events-differ-from-cosim-run-of-the-same-arguments", f"generators '{kind}': {sum(lost.values())} reports only in the co-simulation run, {sum(extra.values())} only in the batch run", generators=kind)
    finally:
        for c in ctxs:
            cleanup(c)
    from hivemon.gen.scenario import spec_summary

    return {"id": case["id"], "violations": viol, "violation_counts": {f"{p}|{m}": n for (p, m), n in vcount.items()}, "counters": dict(cnt), "summary": dict(spec_summary(spec), steps=n, end_offset=case.get("end_offset", 0))}


def build_cases(tier, seed):
    from hivemon.gen.scenario import random_spec

    cases = []
    n = 64 if tier == "quick" else 600
    for i in range(n):
        s = seed * 100000 + 15000 + i
        prof = dict(PROFILE)
        prof["network"] = ["euclidean", "euclidean", "grid"][i % 3]
        prof["lazy"] = bool(i % 2)
        prof["prices"] = ["station", "geoid", "none"][i % 3]
        if tier == "thorough":
            prof["steps"] = (100, 400)
        spec = random_spec(s, prof)
        spec["global"]["log_events"] = False
        steps = spec["sim"]["steps"]
        cases.append({"engine": "c15_diff", "id": f"C15-{i}", "seed": s, "spec": spec, "steps": steps, "variants": 2 if tier == "quick" else 3, "inject": True, "loadpaths": [["none", "empty"], ["empty", "reversed"], ["dispatcher-only", "as-a-list"], ["empty"]][(i // 4) % 4] if i % 4 == 0 else None, "end_offset": [0, 0, 1, spec["sim"]["dt"] // 2][i % 4], "controller": [None, {"stack": ["Dispatcher", "ChargingFleetManager", {"hostile": {"p": 0.2, "seed": 11}}]}, {"stack": ["Dispatcher", "ChargingFleetManager", {"stateful": {"k": 2 + i % 3}}]}, {"stack": ["Dispatcher", "ChargingFleetManager", {"random_draw": {"k": 1 + i % 3}}]}][i % 4]})
    if tier == "thorough":
        for w, st in (("denver_downtown/denver_demo.yaml", 300), ("denver_downtown/denver_demo_fleets.yaml", 300)):
            pass  # shipped scenarios use ISO end times in the yaml; the generated ones cover the same code paths
    # an operator who switches every log off (no file-writing handler is installed then): every fourth scenario
    for k, c in enumerate(cases):
        if k % 4 == 1 and isinstance(c.get("spec"), dict) and "shipped" not in c["spec"]:
            c["spec"]["global"] = dict(c["spec"].get("global") or {}, log_events=False, log_stats=False, log_instructions=False)
    # time stamps in inputs and logs are UTC whatever the host's time zone: every third case runs in a process set to another zone
    for k, c in enumerate(cases):
        if k % 3 == 2:
            c["env"] = {"TZ": ["MST7", "JST-9", "CET-1CEST,M3.5.0,M10.5.0/3"][(k // 3) % 3]}
    return cases


FLOORS = {"quick": {"c15_ticks_checked": 5000, "c15_compositions": 100, "c15_boundaries_compared": 400, "c15_batch_runs": 50, "c15_step_beyond_end_checks": 50, "c15_reinjections": 150, "c15_deferred_flush_calls": 200, "c15_load_paths_compared_without_fleet_level_generators": 3, "c15_cosim_charge_rows": 800}, "thorough": {"c15_ticks_checked": 100000, "c15_compositions": 1500, "c15_boundaries_compared": 6000, "c15_batch_runs": 500, "c15_step_beyond_end_checks": 500, "c15_reinjections": 2000, "c15_deferred_flush_calls": 3000, "c15_load_paths_compared_without_fleet_level_generators": 12, "c15_cosim_charge_rows": 3200}}


def main(tier, seed):
    cases = build_cases(tier, seed)

    def summarize(v, results, by_id):
        v.rule = (
            "per generated scenario (live file cursors across the splits: requests and tariffs arriving right at, before and after split points; eager and lazy reading; int and ISO times): reference = fresh load + crank(1) x n with per-step "
            "state fingerprints and event multisets; variants = fresh load + random compositions crank(a1)...crank(am) (states compared at call boundaries, events per flush), one of them re-injecting an instruction generator between calls; a quarter of the scenarios add the pure hostile generator, a quarter a generator in hive's immutable style whose behaviour depends on state it hands on by returning an updated copy of itself, and a quarter a generator that draws from the process-wide random module (seeded by loading the scenario); fresh load + "
            "LocalSimulationRunner.run over [start, start + n*dt - offset) (step count = ceil, final state and events compared); LocalSimulationRunner.step at the end must refuse. non-trivial = every executed case; distinct = case hash"
        )
        v.assumptions = ["fingerprints drop activity instance ids only"]
        std_summary(v, results, by_id, "c15_compositions", FLOORS[tier])

    return run_check("C15", tier, seed, cases, summarize)
