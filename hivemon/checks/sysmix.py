"""helper: trace + systematic checks share this summary code (C02/C09/C10/C17 variants)."""
from hivemon.checks.common import run_check, std_summary


def main_with_sys(prop, build_cases, nontrivial_key, floors, rule, assumptions):
    def main(tier, seed):
        cases = build_cases(tier, seed)

        def summarize(v, results, by_id):
            v.rule = rule
            v.assumptions = assumptions
            tot, _ = std_summary(v, results, by_id, nontrivial_key, floors[tier])
            for r in results:
                if (r.get("counters") or {}).get("sys_transitions", 0) > 0:
                    v.nontrivial(by_id.get(r.get("id"), {"id": r.get("id")}))
            v.coverage["states"] = tot.get("sys_states", 0)
            v.coverage["transitions"] = tot.get("sys_transitions", 0)

        return run_check(prop, tier, seed, cases, summarize)

    return main
