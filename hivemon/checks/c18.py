"""C18 - charging queues are served first-come first-served."""
import random

from hivemon.checks.common import simple_main, trace_case
from hivemon.gen.scenario import LAT0, LON0


def queue_spec(seed, long_wait=False):
    """1-2 slow plugs, 6-12 nearly empty vehicles at staggered distances (same-step arrivals included)."""
    rnd = random.Random(seed * 7 + 1)
    dt = rnd.choice([30, 60, 61, 120])
    nv = rnd.randint(6, 12)
    plug = rnd.choice(["DCFC", "DCFC", "LEVEL_2"])
    sl, so = LAT0 + 0.005, LON0 + 0.005
    vehicles = []
    for i in range(nv):
        r = rnd.choice([0.0, 0.001, 0.002, 0.004, rnd.uniform(0.0, 0.03), rnd.uniform(0.0, 0.03), rnd.uniform(0.0, 0.03)])
        # (every second scenario numbers its vehicles without padding: "v10" sorts before "v9", as ids - strings - do)
        vehicles.append({"id": f"v{i:02d}" if seed % 2 == 0 else f"v{i}", "lat": round(sl + rnd.choice([-1, 1]) * r, 6), "lon": round(so + rnd.choice([-1, 1]) * r, 6), "mech": "tiny", "soc": round(rnd.uniform(0.15, 0.3), 4)})
    full = seed % 4 == 2 and not long_wait
    if full:
        # a few vehicles that are full and stay full for a while (low idle drain below): a depot-style controller sends them
        # to the station anyway, so the queue holds vehicles that have nothing to charge when their turn comes
        for v in vehicles[: rnd.randint(2, 4)]:
            v["soc"] = 1.0
            r = rnd.choice([0.0, 0.0005, 0.001, 0.002])  # close by: the drive must not cost the 0.1 kWh that "full" tolerates
            v["lat"], v["lon"] = round(sl + r, 6), round(so - r, 6)
    stations = [{"id": "s1", "lat": sl, "lon": so, "plugs": [{"charger": plug, "count": rnd.choice([1, 1, 2])}]}]
    if rnd.random() < 0.4:
        stations[0]["plugs"].append({"charger": "LEVEL_1" if plug != "LEVEL_1" else "LEVEL_2", "count": 1, "on_shift": False})
    stations.append({"id": "bs1", "lat": LAT0, "lon": LON0, "plugs": [{"charger": "LEVEL_2", "count": 1, "on_shift": False}]})
    steps = rnd.randint(160, 260)
    bases = [{"id": "b1", "lat": LAT0, "lon": LON0, "station": "bs1", "stalls": 1}]
    schedules = None
    if seed % 5 == 4 and not long_wait:
        # two human drivers who are off shift for the whole run and cannot charge at home: the built-in driver logic sends
        # them to the station and repeats that instruction every step while they wait
        schedules = [{"id": "never", "start": 0, "end": 0}]
        for j, v in enumerate(vehicles[:2]):
            v["schedule"] = "never"
            v["home_base"] = f"hb{j}"
            bases.append({"id": f"hb{j}", "lat": round(LAT0 + 0.01 + 0.001 * j, 6), "lon": LON0, "station": None, "stalls": 1})
    if seed % 5 == 2 and not long_wait:
        # a depot plug closed to the built-in search for drivers on shift (on_shift_access false), used by an operator who
        # sends vehicles there himself: two human drivers who are on shift all day wait in that queue with the others
        stations[0]["plugs"][0]["on_shift"] = False
        schedules = [{"id": "always", "start": 0, "end": 86399}]
        for j, v in enumerate(vehicles[:2]):
            v["schedule"] = "always"
            v["home_base"] = f"hb{j}"
            bases.append({"id": f"hb{j}", "lat": round(LAT0 + 0.01 + 0.001 * j, 6), "lon": LON0, "station": None, "stalls": 1})
    if seed % 6 == 3 and not long_wait:
        # two kinds of plug, one of each, both open to everybody: two queues at one station, and a controller that now and then
        # tells a waiting vehicle to try the other kind
        stations[0]["plugs"] = [{"charger": "DCFC", "count": 1}, {"charger": "LEVEL_2", "count": 1}]
    if long_wait:
        # a depot plug that takes hours per vehicle, half-hour or hour steps, a run of four days: vehicles wait for more than a day
        dt = rnd.choice([1800, 3600])
        steps = 96 * 3600 // dt
        stations[0]["plugs"] = [{"charger": "LEVEL_1", "count": 1, "on_shift": False}]
        for v in vehicles:
            v["soc"] = round(rnd.uniform(0.15, 0.4), 3)
    fleets = None
    if seed % 5 == 1:
        # a fleets file in which every other vehicle belongs to a fleet, the station to none (open to all): members and
        # non-members wait in the same queue
        fleets = {"fa": {"vehicles": [v["id"] for v in vehicles[::2]], "stations": [], "bases": []}}
    return {
        "name": f"queue{seed}",
        "seed": seed,
        "sim": {"dt": dt, "start": rnd.choice([0, 1000]), "end": 10**6, "timeout": 600, "time_format": "int", "steps": steps},
        "network": {"type": "euclidean"},
        "vehicles": vehicles,
        "stations": stations,
        "bases": bases,
        "requests": [],
        "prices": None,
        "rate": None,
        "schedules": schedules,
        "fleets": fleets,
        # a small battery so that sessions end (and plugs are granted) often; it still needs many steps to fill
        "mechatronics": {
            "tiny": {
                "mechatronics_type": "bev",
                "powercurve_file": "normalized.yaml",
                "powertrain_file": "normalized-electric.yaml",
                "battery_capacity_kwh": rnd.choice([4, 6, 10]) if not long_wait else rnd.choice([45, 60]),
                "nominal_max_charge_kw": 50,
                "charge_taper_cutoff_kw": 10,
                "nominal_watt_hour_per_mile": 225,
                "idle_kwh_per_hour": 0.02 if full or long_wait else 0.8,
            }
        },
        "chargers": None,
        "dispatcher": {**({"idle_time_out_seconds": 10**7} if long_wait else {}), "max_search_radius_km": 6.0, "ideal_fastcharge_soc_limit": rnd.choice([0.5, 0.8]) if not long_wait else 1.0, "charging_range_km_threshold": 15, "charging_range_km_soft_threshold": 25, "matching_range_km_threshold": 1},
        "global": {"lazy": False, "log_events": False},
        "long_wait": long_wait,
    }, steps


def build_cases(tier, seed):
    n = 96 if tier == "quick" else 3000
    cases = []
    for i in range(n):
        s = seed * 100000 + 18000 + i
        spec, steps = queue_spec(s, long_wait=(i % 8 == 5))
        ctrl = {"stack": ["ChargingFleetManager", {"benign_queue": {"p_leave": [0.0, 0.03, 0.08][i % 3], "p_abandon": [0.0, 0.02, 0.05][(i // 3) % 3], "p_resend": [0.0, 0.0, 0.3, 0.6][i % 4], "p_topup": 0.15 if s % 4 == 2 else 0.0, "p_send": 0.5 if s % 5 == 2 and not spec.get("long_wait") else 0.08 if spec.get("long_wait") else 0.0, "p_switch": 0.06 if s % 6 == 3 else 0.0}}]}
        if spec.get("long_wait"):
            ctrl["stack"][1]["benign_queue"].update({"p_leave": 0.0, "p_abandon": [0.0, 0.01][i % 2], "p_send": 0.15})
        cases.append(trace_case("C18", i, s, {}, ctrl, steps, ["C18"], spec=spec, opts=({"cosim_ops": {"every": 12, "kinds": ["append_plugs"]}} if i % 4 == 3 else {})))
    return cases


main = simple_main(
    "C18",
    build_cases,
    "c18_grants_with_others_waiting",
    {
        "quick": {"c18_grants": 300, "c18_grants_with_others_waiting": 200, "c18_overtake_opportunities": 300, "c18_tie_opportunities": 20, "c18_abandonments": 20, "c18_grants_to_full_vehicles": 4, "c18_overtake_opportunities_after_more_than_a_day_of_waiting": 1, "c18_grants_at_a_station_with_two_queues": 1},
        "thorough": {"c18_grants": 3500, "c18_grants_with_others_waiting": 2500, "c18_overtake_opportunities": 4000, "c18_tie_opportunities": 300, "c18_abandonments": 300, "c18_grants_to_full_vehicles": 100, "c18_overtake_opportunities_after_more_than_a_day_of_waiting": 4, "c18_grants_at_a_station_with_two_queues": 8},
    },
    "6-12 nearly empty vehicles at staggered distances from a station with 1-2 plugs of one type (same-step arrivals included), the real ChargingFleetManager sends them there; a benign controller makes charging vehicles "
    "leave and queued vehicles abandon, repeats the go-and-charge instruction to waiting vehicles, and (every fourth scenario) sends full vehicles to the busy plug as well. Join step = first step in which the vehicle is seen in that queue (observed, never read from enqueue_time). A grant to a later joiner while an earlier one keeps waiting is a violation. "
    "non-trivial = at least one plug granted while others were waiting; distinct = case hash",
    ["membership- and plug-valid arrivals only (DESIGN 6)", "vehicles that arrive while a plug is free never enter the queue and are outside the statement"],
)
