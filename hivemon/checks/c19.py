"""C19 - the event log accounts for every state change."""
from hivemon.checks.common import BUILTIN, hostile_stack, shipped_case, simple_main, trace_case

PROFILE = {
    "n_vehicles": (2, 12),
    "n_requests": (40, 220),
    "soc": [0.03, 0.1, 0.3, 0.6, 0.9],
    "colocate": 0.4,
    "spread": 0.015,
    "dts": [7, 30, 60, 61, 97, 120, 300],
    "timeouts": [30, 60, 600, 601],
    "p_ice": 0.3,
    "starts": [0, 1000, 3600, 43200, 86399, 86000],
}


def build_cases(tier, seed):
    n, steps = (72, 220) if tier == "quick" else (1400, 500)
    cases = []
    for i in range(n):
        s = seed * 100000 + 19000 + i
        prof = dict(PROFILE)
        prof["network"] = ["euclidean", "euclidean", "grid"][i % 3]
        ctrl = BUILTIN if i % 3 != 2 else hostile_stack(p=0.15, builtin=True)
        cases.append(trace_case("C19", i, s, prof, ctrl, steps, ["C19"], opts=({"cosim_ops": {"every": 9, "kinds": ["scale_rate", "append_plugs"]}, "cosim_noops": 7} if i % 4 == 1 else {"inject_requests": {"every": 6, "public": False}} if i % 4 == 3 else {})))
    if tier == "thorough":
        for w in ("denver_downtown/denver_demo.yaml", "denver_downtown/denver_demo_fleets.yaml", "denver_downtown/denver_demo_constrained_charging.yaml"):
            cases.append(shipped_case("C19", w, 800, ["C19"], tag="b"))
    return cases


main = simple_main(
    "C19",
    build_cases,
    "c19_pickups",
    {
        "quick": {"c19_lines": 100000, "c19_moves": 10000, "c19_charges": 8000, "c19_pickups": 500, "c19_dropoffs": 500, "c19_cancels": 1000, "c19_station_load_checks": 50000},
        "thorough": {"c19_lines": 2000000, "c19_moves": 200000, "c19_charges": 150000, "c19_pickups": 8000, "c19_dropoffs": 8000, "c19_cancels": 20000, "c19_station_load_checks": 1000000},
    },
    "whole runs through the real EventfulHandler and StatsHandler (file-writing, unmodified); event.log is parsed back line by line, lines are grouped per step by the file offset noted after each crank(1); "
    "sums (move distances vs odometer, charge energies vs gained), per-step station load vs charge events, StatsHandler counters vs add/cancel lines, one-to-one matching of state changes (request left, energy rose, odometer rose, trip ended) "
    "with lines, waiting time within [0, timeout + dt] incl. runs crossing midnight. non-trivial = at least one pickup line; distinct = case hash",
    ["the summary file only carries the ratio of the counters; the counters themselves are read from the registered StatsHandler"],
)
