"""C19 - the event log accounts for every state change."""
from hivemon.checks.common import BUILTIN, hostile_stack, shipped_case, simple_main, trace_case

PROFILE = {
    "n_vehicles": (2, 12),
    "n_requests": (40, 220),
    "soc": [0.03, 0.1, 0.3, 0.6, 0.9],
    "colocate": 0.4,
    "spread": 0.015,
    "dts": [7, 30, 60, 61, 97, 120, 300],
    "timeouts": [30, 60, 600, 601],
    "p_ice": 0.3,
    "starts": [0, 1000, 3600, 43200, 86399, 86000],
}


def _canon_line(d):
    drop = ("session_id",)
    out = []
    for k, v in sorted(d.items()):
        if k in drop:
            continue
        if k in ("vehicle_memberships", "fleet_id", "memberships") and isinstance(v, str):
            v = "".join(sorted(v))  # printed set: member order is free
        out.append((k, str(v)))
    return tuple(out)


def _read_log(path):
    import json

    recs, bad = [], 0
    for line in open(path):
        line = line.strip()
        if not line:
            continue
        try:
            recs.append(json.loads(line))
        except Exception:
            bad += 1
    return recs, bad


def run_split(case):
    """the same scenario advanced one step per crank call and in calls of several steps: the written logs must hold the same
    records, and the second log is checked offline for one station load record per station and step that equals that
    step's charge records there."""
    import collections

    import nrel.hive.app.hive_cosim as hc
    from hivemon.common import quiet_stdout, silence_logging
    from hivemon.drive.tracer import Ctx, cleanup, load_case
    from nrel.hive.reporting.handler.eventful_handler import EventfulHandler

    silence_logging()
    logs = []
    ctxs = []
    steps = int(case["steps"])
    plans = [[1] * steps, list(case["sizes"])]
    n_stations = 0
    try:
        for plan in plans:
            ctx = Ctx({k: v for k, v in case.items() if k not in ("engine", "sizes")})
            ctxs.append(ctx)
            rp = load_case(ctx)
            n_stations = len(rp.s.stations)
            ev = next(h for h in rp.e.reporter.handlers if isinstance(h, EventfulHandler))
            path = ev.log_file.name
            done = 0
            for n in plan:
                n = min(n, steps - done)
                if n <= 0:
                    break
                with quiet_stdout():
                    rp = hc.crank(rp, n).runner_payload
                done += n
                ctx.count("c19_split_cranks_of_several_steps" if n > 1 else "c19_split_single_step_cranks")
            ctx.rp = rp
            ev.log_file.flush()
            recs, bad = _read_log(path)
            if bad:
                ctx.violate("C19", "unparsable-line", f"{bad} lines of event.log are not JSON")
            logs.append(recs)
            station_ids = sorted(rp.s.stations.keys())
            cleanup(ctx)
        ctx = ctxs[-1]
        a = collections.Counter((d.get("report_type"), _canon_line(d)) for d in logs[0])
        b = collections.Counter((d.get("report_type"), _canon_line(d)) for d in logs[1])
        ctx.count("c19_split_records_compared", sum(a.values()))
        if a != b:
            only_a, only_b = a - b, b - a
            kinds = sorted({k[0] for k in only_a} | {k[0] for k in only_b})
            ex = next(iter(only_a or only_b))
            ctx.violate("C19", "log-differs-when-several-steps-per-call", f"log of {sum(a.values())} records (one step per call) vs {sum(b.values())} records (calls of {case['sizes'][:6]} steps): {sum(only_a.values())} records only in the first, {sum(only_b.values())} only in the second; kinds {kinds}; e.g. {dict(ex[1]).get('report_type')} {dict(list(ex[1])[:6])}", kinds=kinds)
        # offline: per station and step. Vehicle records of the step that starts at t carry the window [t - dt, t] (they are
        # written before the clock ticks), station load records carry [t, t + dt] (written after it): the pairing is by
        # "charge window end == load window start"; should the two conventions ever be unified the pairing by equal
        # windows is accepted as well - a violation is a mismatch under both pairings
        load = collections.defaultdict(list)
        chg = {0: collections.Counter(), 1: collections.Counter()}
        for d in logs[1]:
            if d.get("report_type") == "station_load_event":
                load[(d["station_id"], d["sim_time_start"])].append(float(d["energy"]))
            elif d.get("report_type") == "vehicle_charge_event":
                chg[0][(d["station_id"], d["sim_time_start"])] += float(d["energy"])
                chg[1][(d["station_id"], d["sim_time_end"])] += float(d["energy"])
                ctx.count("c19_split_charge_records")
        for key, xs in load.items():
            ctx.count("c19_split_station_load_records")
            if len(xs) > 1:
                ctx.violate("C19", "duplicate-station-load", f"{len(xs)} station load records for {key}")
        bad = {}
        for al in (0, 1):
            bad[al] = [(key, load[key][0], chg[al].get(key, 0.0)) for key in load if abs(load[key][0] - chg[al].get(key, 0.0)) > 1e-9 * max(1.0, abs(load[key][0]))]
            bad[al] += [(key, None, x) for key, x in chg[al].items() if key not in load and x != 0.0]
        if bad[0] and bad[1]:
            key, l, c = bad[1][0]
            ctx.violate("C19", "station-load-differs-from-charge-events" if l is not None else "missing-station-load", f"station {key[0]}, load window starting {key[1]}: load record {l}, charge records of that step there sum to {c} ({len(bad[1])} such station-steps)", station=key[0])
        if len(load) != n_stations * steps:
            ctx.violate("C19", "missing-station-load", f"{len(load)} station load records for {n_stations} stations over {steps} steps")
    except Exception as e:
        import traceback

        frames = traceback.extract_tb(e.__traceback__)
        if not ctxs or not any("/nrel/hive/" in f.filename for f in frames) or "/hivemon/checks/" in frames[-1].filename:
            raise
        where = next((f"{f.filename.split('/')[-1]}:{f.name}" for f in reversed(frames) if "/nrel/hive/" in f.filename), "?")
        ctxs[-1].violate("C19", f"exception:{type(e).__name__}@{where}", f"{type(e).__name__}: {e}", traceback=traceback.format_exc()[-2000:])
    finally:
        for c in ctxs:
            cleanup(c)
    ctx = ctxs[-1]
    tot = collections.Counter()
    for c in ctxs:
        tot.update(c.counters)
    return {"id": case["id"], "engine": "c19_split", "violations": [v for c in ctxs for v in c.violations], "counters": dict(tot), "sets": {}, "hook_calls": {}, "summary": {}}


def build_cases(tier, seed):
    import random

    n, steps = (72, 220) if tier == "quick" else (1400, 500)
    cases = []
    # several steps per co-simulation call (as examples/cosim_custom_dispatcher.py does) against one step per call
    for i in range(12 if tier == "quick" else 200):
        s = seed * 100000 + 19500 + i
        rnd = random.Random(s)
        st = 90 if tier == "quick" else 200
        sizes = []
        while sum(sizes) < st:
            sizes.append(rnd.choice([1, 2, 3, 5, 10, 17]))
        prof = dict(PROFILE)
        prof["network"] = "euclidean"
        c = trace_case("C19", i, s, prof, BUILTIN, st, [], tag="split")
        c["engine"] = "c19_split"
        c["sizes"] = sizes
        c["opts"] = {"record_generators": False}
        cases.append(c)
    for i in range(n):
        s = seed * 100000 + 19000 + i
        prof = dict(PROFILE)
        prof["network"] = ["euclidean", "euclidean", "grid"][i % 3]
        ctrl = BUILTIN if i % 3 != 2 else hostile_stack(p=0.15, builtin=True)
        cases.append(trace_case("C19", i, s, prof, ctrl, steps, ["C19"], opts=({"cosim_ops": {"every": 9, "kinds": ["scale_rate", "append_plugs"]}, "cosim_noops": 7} if i % 4 == 1 else {"inject_requests": {"every": 6, "public": False}} if i % 4 == 3 else {})))
    # an operator who logs only some kinds of records (log_sim_config): every clause about a kind that is logged still applies, and
    # station loads are compared with what the vehicles really took on
    SEL = [["station_load_event"], ["station_load_event", "vehicle_move_event", "add_request_event", "cancel_request_event", "pickup_request_event"], ["vehicle_charge_event", "pickup_request_event", "dropoff_request_event"], ["station_load_event", "dropoff_request_event", "driver_schedule_event", "instruction"]]
    for k, c in enumerate(cases):
        if c.get("engine") == "trace" and k % 6 == 4:
            c["global_overrides"] = {"log_sim_config": SEL[(k // 6) % len(SEL)]}
    if tier == "thorough":
        for w in ("denver_downtown/denver_demo.yaml", "denver_downtown/denver_demo_fleets.yaml", "denver_downtown/denver_demo_constrained_charging.yaml"):
            cases.append(shipped_case("C19", w, 800, ["C19"], tag="b"))
    # time stamps in inputs and logs are UTC whatever the host's time zone: every third case runs in a process set to another zone
    for k, c in enumerate(cases):
        if k % 3 == 2:
            c["env"] = {"TZ": ["MST7", "JST-9", "CET-1CEST,M3.5.0,M10.5.0/3"][(k // 3) % 3]}
    return cases


main = simple_main(
    "C19",
    build_cases,
    "c19_pickups",
    {
        "quick": {"c19_lines": 100000, "c19_moves": 10000, "c19_charges": 8000, "c19_pickups": 500, "c19_dropoffs": 500, "c19_cancels": 1000, "c19_station_load_checks": 50000, "c19_split_cranks_of_several_steps": 100, "c19_split_records_compared": 5000, "c19_split_charge_records": 500, "c19_station_loads_compared_with_energy_taken_on": 3000},
        "thorough": {"c19_lines": 2000000, "c19_moves": 200000, "c19_charges": 150000, "c19_pickups": 8000, "c19_dropoffs": 8000, "c19_cancels": 20000, "c19_station_load_checks": 1000000, "c19_split_cranks_of_several_steps": 2000, "c19_split_records_compared": 100000, "c19_split_charge_records": 10000, "c19_station_loads_compared_with_energy_taken_on": 12000},
    },
    "whole runs through the real EventfulHandler and StatsHandler (file-writing, unmodified); event.log is parsed back line by line, lines are grouped per step by the file offset noted after each crank(1); "
    "sums (move distances vs odometer, charge energies vs gained), per-step station load vs charge events, StatsHandler counters vs add/cancel lines, one-to-one matching of state changes (request left, energy rose, odometer rose, trip ended) "
    "with lines, waiting time within [0, timeout + dt] incl. runs crossing midnight. A second engine advances the same scenario one step per call and in calls of 1-17 steps (hive_cosim.crank(rp, n)): both written logs must hold the same multiset of records, and the batched log must hold one station load record per station and step equal to that step's charge records. non-trivial = at least one pickup line; distinct = case hash",
    ["the summary file only carries the ratio of the counters; the counters themselves are read from the registered StatsHandler"],
)
