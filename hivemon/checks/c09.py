"""C09 - instructions apply all-or-nothing, one per vehicle per step."""
from hivemon.checks.common import BUILTIN, hostile_stack, shipped_case, trace_case
from hivemon.checks.sysmix import main_with_sys
from hivemon.drive.systematic import systematic_cases

PROFILE = {
    "n_vehicles": (4, 14),
    "n_requests": (40, 200),
    "soc": [0.02, 0.05, 0.1, 0.3, 0.6, 0.9],
    "colocate": 0.45,
    "spread": 0.012,
    "plug_counts": [1, 1, 2],
    "stalls": [1, 1, 2],
    "dts": [30, 60, 61, 120, 300],
    "timeouts": [60, 600],
    "p_human": 0.35,
    "idle_time_out": 120,
    "depot": 0.6,  # fleets scenarios: a depot shared by up to three human drivers, fewer plugs than drivers
}


def build_cases(tier, seed):
    n, steps = (72, 160) if tier == "quick" else (700, 350)
    cases = []
    for i in range(n):
        s = seed * 100000 + 9000 + i
        prof = dict(PROFILE)
        prof["fleets"] = [0, 2, 0, 3][i % 4]
        if i % 6 == 5:
            prof["network"] = "grid"
        # stacks of 2-3 generators over overlapping vehicles, several proposals per vehicle, + built-in + drivers
        k = i % 4
        if k == 0:
            ctrl = {"stack": ["Dispatcher", {"hostile": {"p": 0.3, "per_vehicle": 2}}, "ChargingFleetManager", {"hostile": {"p": 0.3}}]}
        elif k == 1:
            ctrl = {"stack": [{"hostile": {"p": 0.4}}, {"stateful": {"k": 2}}, "Dispatcher", "ChargingFleetManager"]}
        elif k == 2:
            ctrl = {"stack": ["Dispatcher", "ChargingFleetManager", {"hostile": {"p": 0.25}}, {"hostile": {"p": 0.25}}, {"hostile": {"p": 0.25, "per_vehicle": 2}}]}
        else:
            ctrl = hostile_stack(p=0.5, builtin=False)
        # every third run a co-simulation client hands generators back between calls (all of them, or one that is not the last)
        cases.append(trace_case("C09", i, s, prof, ctrl, steps, ["C09"], opts=({"cosim_noops": 4 + i % 3} if i % 3 == 1 else {})))
    cases += systematic_cases("C09", tier, seed)
    if tier == "thorough":
        for w in ("denver_downtown/denver_demo.yaml", "denver_downtown/denver_demo_fleets.yaml"):
            cases.append(shipped_case("C09", w, 300, ["C09"], controller=hostile_stack(0.25), tag="h"))
    return cases


main = main_with_sys(
    "C09",
    build_cases,
    "c09_rejected",
    {
        "quick": {"c09_instructions": 10000, "c09_accepted": 3000, "c09_rejected": 3000, "set:c09_triples": 120, "c09_contested_vehicles": 2000, "c09_driver_overrides": 100, "c09_multi_instruction_batches": 3000, "sys_c09_instructions": 20000},
        "thorough": {"c09_instructions": 200000, "c09_accepted": 60000, "c09_rejected": 60000, "set:c09_triples": 160, "c09_contested_vehicles": 40000, "c09_driver_overrides": 2000, "c09_multi_instruction_batches": 60000, "sys_c09_instructions": 400000},
    },
    "stacks of 2-5 instruction generators over overlapping vehicles (hostile generators with valid/missing/remote/wrong-fleet/wrong-plug/full targets, built-in dispatchers, human and autonomous drivers). "
    "Atomicity: every batch captured at apply_instructions is re-applied one instruction at a time through the real function; each instruction must either enter the instructed activity (counters and "
    "assignment records still consistent) or leave the deep fingerprint of the whole state unchanged, and the fold must equal the batch result. Precedence: the applied batch must be exactly the last proposal per vehicle with "
    "the driver's on top. The systematic driver applies every instruction variant in every reached state of four tiny worlds. non-trivial = at least one rejected instruction; distinct = case hash",
    ["whether an accepted instruction is listed in applied_instructions is not judged (only that a rejected one changes nothing, applied_instructions included)"],
)
