"""C05 - energy and money are conserved between vehicles and stations."""
from hivemon.checks.common import BUILTIN, hostile_stack, shipped_case, simple_main, trace_case

PROFILE = {
    "p_ice": 0.35,
    "custom_mech": 0.5,
    "custom_chargers": 0.5,
    "soc": [0.02, 0.05, 0.1, 0.2, 0.5, 0.9],
    "n_vehicles": (3, 14),
    "n_requests": (20, 160),
    "plug_counts": [1, 2, 3],
    "spread": 0.012,
    "dts": [7, 30, 60, 61, 97, 120, 300],
    "timeouts": [60, 600],
}


def build_cases(tier, seed):
    n, steps = (80, 240) if tier == "quick" else (1600, 500)
    cases = []
    for i in range(n):
        s = seed * 100000 + 5000 + i
        prof = dict(PROFILE)
        prof["prices"] = ["station", "station", "geoid", "none"][i % 4]
        if i % 6 == 5:
            prof["network"] = "grid"
        ctrl = BUILTIN if i % 2 == 0 else hostile_stack(p=0.2, builtin=True, kinds=["Idle", "DispatchStation", "ChargeStation", "ChargeBase", "ReserveBase", "DispatchBase", "DispatchTrip", "Reposition"])
        c = trace_case("C05", i, s, prof, ctrl, steps, ["C05"], opts=({"cosim_ops": {"every": 9, "kinds": ["scale_rate", "append_plugs"]}} if i % 4 == 3 else {}))
        if i % 4 == 1:
            # an operator who logs only some kinds of records (log_sim_config): what is logged must not change what is booked
            c["global_overrides"] = {"log_sim_config": [["vehicle_charge_event", "station_load_event"], ["instruction", "vehicle_state", "dropoff_request_event"], []][(i // 4) % 3]}
        cases.append(c)
    # one busy plug, many nearly empty vehicles with small batteries: sessions run to a full battery while others wait for the
    # same plug (hand-overs), under a tariff that changes during the run
    from hivemon.checks.c18 import queue_spec

    for i in range(12 if tier == "quick" else 200):
        s = seed * 100000 + 5500 + i
        spec, qsteps = queue_spec(s)
        plugs = [(st["id"], pl["charger"]) for st in spec["stations"] for pl in st["plugs"]]
        t0 = spec["sim"]["start"]
        spec["prices"] = {"by": "station", "rows": [[t0 + 1 + 600 * w, sid, c, [0.3, 0.55, 0.0, 0.2][(w + k) % 4]] for w in range(4) for k, (sid, c) in enumerate(plugs)]}
        spec["dispatcher"]["ideal_fastcharge_soc_limit"] = [0.8, 1.0][i % 2]
        ctrl = {"stack": ["ChargingFleetManager", {"benign_queue": {"p_leave": 0.02, "p_abandon": 0.01, "seed": 5}}]}
        cases.append(trace_case("C05", i, s, {}, ctrl, qsteps, ["C05"], spec=spec, tag="queue"))
    if tier == "thorough":
        for w in ("denver_downtown/denver_demo.yaml", "denver_downtown/denver_demo_constrained_charging.yaml", "denver_downtown/denver_demo_fleets.yaml"):
            cases.append(shipped_case("C05", w, 700, ["C05"], tag="b"))
    return cases


main = simple_main(
    "C05",
    build_cases,
    "c05_priced_charge_steps",
    {
        "quick": {"c05_charge_steps": 5000, "c05_priced_charge_steps": 1500, "c05_charge_steps_with_nonzero_table_price": 1500, "c05_base_charge_steps": 500, "c05_pickups": 300, "c05_steps_with_gasoline_flow": 20},
        "thorough": {"c05_charge_steps": 100000, "c05_priced_charge_steps": 30000, "c05_charge_steps_with_nonzero_table_price": 30000, "c05_base_charge_steps": 10000, "c05_pickups": 5000, "c05_steps_with_gasoline_flow": 500},
    },
    "generated scenarios with tariff tables that change during sessions (by station id and by region), plug mixes, both energy types, station and base charging, sessions cut short by "
    "instructions and by a full battery, tariff files with epoch and ISO times, rows naming unknown stations or plugs; a double-entry ledger is kept from the charge hook (vehicle and station before/after each charge step), the pickup events and the state deltas; every payment is priced twice, at the price the station holds and at the price an independent reading of the tariff table (calendar model over the input rows) puts in force for that plug in that step. "
    "non-trivial = at least one charge step at a non-zero tariff; distinct = distinct case hash",
    ["the tariff in force is read from the station as it is when the charge step starts (tariffs change only in the pre-step update)"],
)
