"""C14 - routes on a street network are fastest paths (differential against an independent heap Dijkstra)."""
from __future__ import annotations

import collections
import heapq
import random
from typing import Any, Dict

from hivemon.checks.common import run_check, std_summary
from hivemon.gen import graph as G


def adjacency(graph):
    adj: Dict[Any, Dict[Any, float]] = {}
    for u, v, d in graph.edges(data=True):
        adj.setdefault(u, {})
        w = d["travel_time"]
        if w < adj[u].get(v, float("inf")):
            adj[u][v] = w
    return adj


def G_edges_missing_speed(net):
    from hivemon.gen import graph as G

    return [(u, v, d) for u, v, d in G.grid(net).edges(data=True) if "speed_kmph" not in d]


def dijkstra_all(adj, s):
    dist = {s: 0.0}
    pq = [(0.0, s)]
    while pq:
        du, u = heapq.heappop(pq)
        if du > dist[u]:
            continue
        for v, w in adj.get(u, {}).items():
            nd = du + w
            if nd < dist.get(v, float("inf")):
                dist[v] = nd
                heapq.heappush(pq, (nd, v))
    return dist


def run_sweep(case: Dict[str, Any]) -> Dict[str, Any]:
    import logging

    logging.disable(logging.CRITICAL)
    from nrel.hive.model.entity_position import EntityPosition

    from hivemon.checks.c13 import build_network

    rnd = random.Random(case["seed"])
    viol, vcount, cnt = [], collections.Counter(), collections.Counter()

    def violate(mech, msg, **w):
        vcount[("C14", mech)] += 1
        if vcount[("C14", mech)] <= 3:
            viol.append({"property": "C14", "mechanism": mech, "message": msg, "step": None, "witness": {k: str(v)[:400] for k, v in w.items()}})

    rn = build_network(case["net"])
    links = sorted(rn.link_helper.links.values(), key=lambda l: l.link_id)
    if case["net"]["type"] == "grid":
        # generated graphs carry no travel times of their own: the time of a link is its length over its speed, taken from the
        # link table the vehicles drive on (incl. links without a speed, which get network.default_speed_kmph)
        adj = {}
        for l in links:
            a, b = (int(x) for x in l.link_id.split("-")[:2])
            adj.setdefault(a, {})[b] = l.distance_km / l.speed_kmph * 3600.0
        cnt["c14_links_with_default_speed"] = sum(1 for u, v, d in G_edges_missing_speed(case["net"]))
        if case["net"].get("parallel"):
            # two streets between the same junctions share one link id, so the link table cannot say which one a hop uses:
            # here the time of a hop is what the statement calls it, the best edge between the two junctions in the graph
            # (length over speed, or over the default speed where the edge has none)
            from hivemon.gen import graph as G

            dflt = float(case["net"].get("default_speed_kmph", 40.0))
            adj = {}
            for a, b, d in G.grid(case["net"]).edges(data=True):
                w = d["length"] / 1000.0 / float(d.get("speed_kmph", dflt)) * 3600.0
                if w < adj.setdefault(a, {}).get(b, float("inf")):
                    adj[a][b] = w
            cnt["c14_parallel_edge_pairs"] = sum(1 for a, b, k in G.grid(case["net"]).edges(keys=True) if k > 0)
    else:
        adj = adjacency(rn.graph)  # shipped graphs state their own travel_time per edge
    by_tail: Dict[int, list] = collections.defaultdict(list)  # links leaving node
    by_head: Dict[int, list] = collections.defaultdict(list)  # links entering node
    for l in links:
        a, b = (int(x) for x in l.link_id.split("-")[:2])
        by_tail[a].append(l)
        by_head[b].append(l)
    nodes = sorted(rn.graph.nodes())
    if case.get("all_pairs"):
        lo, hi = case["all_pairs"]
        sources = nodes[lo:hi]
        pairs = [(u, v) for u in sources for v in nodes if u != v]
    else:
        pairs = [(rnd.choice(nodes), rnd.choice(nodes)) for _ in range(case["n"])]
    cache: Dict[int, Dict[int, float]] = {}
    worst = 0.0
    speeds = {round(l.speed_kmph, 3) for l in links}
    for u, v in pairs:
        if u == v or not by_head[u] or not by_tail[v]:
            continue
        a = rnd.choice(by_head[u])  # origin link ends at u
        b = rnd.choice(by_tail[v])  # destination link starts at v
        if a.link_id == b.link_id and a.start == b.end:
            continue  # one zero-extent link taken as both ends: origin and destination coincide, the route is empty
        r = rn.route(EntityPosition(a.link_id, a.start), EntityPosition(b.link_id, b.end))
        cnt["c14_routes"] += 1
        if len(r) < 2:
            violate("route-too-short", f"route from link {a.link_id} to link {b.link_id} has {len(r)} links")
            continue
        inner = r[1:-1]
        try:
            cost = sum(adj[int(l.link_id.split("-")[0])][int(l.link_id.split("-")[1])] for l in inner)
        except KeyError as e:
            violate("inner-link-not-in-graph", f"route {a.link_id}->{b.link_id} uses {e}")
            continue
        # the inner part must run from u to v
        if inner and (int(inner[0].link_id.split("-")[0]) != u or int(inner[-1].link_id.split("-")[1]) != v):
            violate("inner-part-ends-differ", f"route {a.link_id}->{b.link_id}: inner part runs {inner[0].link_id}..{inner[-1].link_id}, expected {u}..{v}")
            continue
        if not inner and u != v:
            violate("inner-part-missing", f"route {a.link_id}->{b.link_id} has no inner part although {u} != {v}")
            continue
        if u not in cache:
            cache[u] = dijkstra_all(adj, u)
        opt = cache[u].get(v)
        if opt is None:
            continue
        if len(inner) > 1:
            cnt["c14_multi_link_routes"] += 1
        if cost > opt + 1e-6:
            worst = max(worst, cost - opt)
            violate("route-slower-than-optimum", f"route {a.link_id}->{b.link_id}: inner part takes {cost:.3f}s, the fastest path {u}->{v} takes {opt:.3f}s", excess_s=cost - opt, links=[l.link_id for l in inner][:12])
        elif cost < opt - 1e-6:
            violate("oracle-inconsistent", f"route cheaper than Dijkstra?! {cost} < {opt}")
    cnt["c14_distinct_speeds"] = len(speeds)
    return {"id": case["id"], "violations": viol, "violation_counts": {f"{p}|{m}": n for (p, m), n in vcount.items()}, "counters": dict(cnt), "summary": {"net": case["net"], "routes": cnt["c14_routes"], "speeds": sorted(speeds)[:8], "worst_excess_s": worst}}


def run_instr(case: Dict[str, Any]) -> Dict[str, Any]:
    """routes as the instructions hand them out: a vehicle is placed on a random link with a chosen remaining range (from far
    too little to plenty) through the public state operations, the real DispatchStation / DispatchBase / Reposition
    instruction is applied to it, and the route inside the resulting state is judged against Dijkstra."""
    import dataclasses

    import immutables
    from hivemon.common import silence_logging
    from hivemon.drive.tracer import Ctx, cleanup, load_case
    from nrel.hive.dispatcher.instruction.instructions import DispatchBaseInstruction, DispatchStationInstruction, RepositionInstruction
    from nrel.hive.model.energy.energytype import EnergyType
    from nrel.hive.model.entity_position import EntityPosition
    from nrel.hive.state.simulation_state import simulation_state_ops as sso
    from returns.result import Failure

    silence_logging()
    rnd = random.Random(case["seed"])
    viol, vcount, cnt = [], collections.Counter(), collections.Counter()

    def violate(mech, msg, **w):
        vcount[("C14", mech)] += 1
        if vcount[("C14", mech)] <= 3:
            viol.append({"property": "C14", "mechanism": mech, "message": msg, "step": None, "witness": {k: str(v)[:400] for k, v in w.items()}})

    ctx = Ctx({"gen": case["gen"], "controller": None, "opts": {"record_generators": False}, "case_seed": 0})
    try:
        rp = load_case(ctx)
        sim, env = rp.s, rp.e
        rn = sim.road_network
        links = sorted(rn.link_helper.links.values(), key=lambda l: l.link_id)
        adj_t, adj_d = {}, {}
        for l in links:
            a, b = (int(x) for x in l.link_id.split("-")[:2])
            adj_t.setdefault(a, {})[b] = l.distance_km / l.speed_kmph * 3600.0
            adj_d.setdefault(a, {})[b] = l.distance_km
        ct, cd = {}, {}
        bevs = [v for v in sim.get_vehicles() if EnergyType.ELECTRIC in v.energy and hasattr(env.mechatronics.get(v.mechatronics_id), "nominal_watt_hour_per_mile")]
        stations = [s for s in sim.get_stations()]
        bases = list(sim.get_bases())
        if not bevs or not stations:
            return {"id": case["id"], "violations": [], "counters": {}, "summary": {}}
        for _ in range(case["n"]):
            v = rnd.choice(bevs)
            mech = env.mechatronics[v.mechatronics_id]
            o = rnd.choice(links)
            kind = rnd.choice(["station", "station", "base", "reposition"])
            if kind == "station":
                st = rnd.choice(stations)
                dpos, instr = st.position, DispatchStationInstruction(v.id, st.id, sorted(st.state.keys())[0])
                if not st.membership.grant_access_to_membership(v.membership):
                    continue
            elif kind == "base" and bases:
                b = rnd.choice(bases)
                dpos, instr = b.position, DispatchBaseInstruction(v.id, b.id)
                if not b.membership.grant_access_to_membership(v.membership):
                    continue
            else:
                tl = rnd.choice(links)
                dpos, instr = EntityPosition(tl.link_id, tl.end), RepositionInstruction(v.id, tl.link_id)
            u = int(o.link_id.split("-")[1])
            w = int(dpos.link_id.split("-")[0])
            if o.link_id == dpos.link_id:
                continue
            if u not in cd:
                cd[u] = dijkstra_all(adj_d, u)
                ct[u] = dijkstra_all(adj_t, u)
            d_short, t_opt = cd[u].get(w), ct[u].get(w)
            if d_short is None or t_opt is None:
                continue
            # remaining range from a fraction of the shortest way there up to plenty
            rng_km = max(0.05, (d_short + o.distance_km) * rnd.choice([0.3, 0.8, 1.0, 1.1, 1.25, 1.5, 2.0, 4.0, 50.0]))
            kwh = min(rng_km / 1.609344 * mech.nominal_watt_hour_per_mile * 0.001, mech.battery_capacity_kwh)
            v2 = dataclasses.replace(v.modify_position(EntityPosition(o.link_id, o.start)), energy=immutables.Map({EnergyType.ELECTRIC: kwh}))
            res = sso.modify_vehicle_safe(sim, v2)
            if isinstance(res, Failure):
                continue
            err, out = instr.apply_instruction(res.unwrap(), env)
            if err is not None or out is None or not hasattr(out.next_state, "route"):
                continue
            r = out.next_state.route
            if len(r) < 2:
                continue
            try:
                hops = [(int(l.link_id.split("-")[0]), int(l.link_id.split("-")[1])) for l in r[1:-1]]
                cost = sum(adj_t[a][b] for a, b in hops)
            except (KeyError, ValueError):
                continue
            if hops and (hops[0][0] != u or hops[-1][1] != w):
                continue
            if not hops and u != w:
                continue
            cnt["c14_instruction_routes"] += 1
            if rng_km < d_short * 1.6:
                cnt["c14_instruction_routes_with_little_range"] += 1
            if cost > t_opt + 1e-6:
                violate("route-slower-than-optimum", f"{type(instr).__name__} for a vehicle on link {o.link_id} with {rng_km:.2f} km of range: inner part of the route handed out takes {cost:.3f}s, the fastest path {u}->{w} takes {t_opt:.3f}s (shortest way {d_short:.2f} km)", excess_s=cost - t_opt, links=[l.link_id for l in r[1:-1]][:12])
    finally:
        cleanup(ctx)
    return {"id": case["id"], "violations": viol, "violation_counts": {f"{p}|{m}": n for (p, m), n in vcount.items()}, "counters": dict(cnt), "summary": {"seed": case["seed"]}}


def build_cases(tier, seed):
    cases = []
    rnd = random.Random(seed + 14)
    ngrid, per = (24, 1500) if tier == "quick" else (640, 4000)
    for j in range(ngrid):
        net = {"type": "grid", "n": rnd.randint(4, 9), "seed": rnd.randint(0, 10**6), "speeds": rnd.choice(["varied", "varied", "mixed", "slow"]), "oneway": rnd.choice([0.0, 0.2, 0.4]), "delete": rnd.choice([0.0, 0.1, 0.2]), "dlat": rnd.choice([0.001, 0.002, 0.01]), "dlon": rnd.choice([0.0012, 0.0025, 0.012]), "stretch": rnd.choice([1.0, 1.3, 2.0])}
        if j % 4 == 2:
            net["stubs"] = rnd.choice([0.2, 0.4])
        if j % 3 == 1:
            net.update({"missing_speed": rnd.choice([0.2, 0.5]), "default_speed_kmph": rnd.choice([10.0, 100.0, 130.0])})
        if j % 6 == 5:
            net.update({"parallel": rnd.choice([0.1, 0.25]), "parallel_differs": True})
            net.pop("stubs", None)
        if j % 3 == 1:
            net["latlon_keys"] = True
        if j % 4 == 2:
            net["preset_time"] = ["fast", 0.5, "fast", 0.9][(j // 4) % 4]
        if j % 4 == 1:
            net["origin"] = list(G.PLACES[(j // 4) % len(G.PLACES)])  # a town elsewhere on the globe (across the 180th meridian, far north, ...)
        cases.append({"engine": "c14_sweep", "id": f"C14-grid{j}", "seed": seed * 1000 + j, "net": net, "n": per})
    if tier == "quick":
        for j in range(8):
            cases.append({"engine": "c14_sweep", "id": f"C14-denver{j}", "seed": seed * 1000 + 500 + j, "net": {"type": "denver"}, "n": 800})
    else:
        # all pairs of junctions of the shipped Denver graph (308 nodes)
        step = 10
        for j, lo in enumerate(range(0, 320, step)):
            cases.append({"engine": "c14_sweep", "id": f"C14-denver-all{j}", "seed": seed * 1000 + 500 + j, "net": {"type": "denver"}, "all_pairs": [lo, lo + step]})
    # every route handed out during scenario runs (hostile control re-instructs vehicles that are under way)
    from hivemon.checks.common import BUILTIN, hostile_stack, trace_case

    n, steps = (16, 150) if tier == "quick" else (160, 400)
    for i in range(n):
        s = seed * 100000 + 14000 + i
        # (nearly empty vehicles included: what a vehicle is handed must be the fastest path whatever its range)
        prof = {"network": ["grid", "denver", "grid", "grid"][i % 4], "n_vehicles": (4, 12), "n_requests": (40, 200), "p_human": 0.3, "soc": [0.004, 0.008, 0.015, 0.03, 0.3, 0.8], "p_ice": 0.1, "grid": {"stretch": 2.0, "speeds": "varied"}}
        ctrl = BUILTIN if i % 4 == 3 else hostile_stack(p=0.25, builtin=True, kinds=["DispatchBase", "DispatchStation", "Reposition", "DispatchTrip", "Idle"])
        cases.append(trace_case("C14", i, s, prof, ctrl, steps, ["C14R"]))
    for j in range(8 if tier == "quick" else 120):
        sj = seed * 100000 + 14500 + j
        cases.append({"engine": "c14_instr", "id": f"C14-instr{j}", "seed": sj, "n": 600 if tier == "quick" else 1500, "gen": {"seed": sj, "profile": {"network": "grid", "grid": {"stretch": 2.5, "speeds": "varied", "n": 5 + j % 4}, "n_vehicles": (4, 8), "n_stations": (3, 5), "n_bases": (2, 3), "p_ice": 0.0, "custom_mech": 0.0, "fleets": 0, "n_requests": (5, 10)}}})
    if tier == "thorough":
        for j in range(16):
            cases.append({"engine": "c14_sweep", "id": f"C14-manhattan{j}", "seed": seed * 1000 + 900 + j, "net": {"type": "manhattan"}, "n": 2500})
    return cases


FLOORS = {"quick": {"c14_routes": 25000, "c14_multi_link_routes": 20000, "c14_run_routes": 1000, "c14_instruction_routes": 1500, "c14_instruction_routes_with_little_range": 500}, "thorough": {"c14_routes": 600000, "c14_multi_link_routes": 500000, "c14_run_routes": 20000, "c14_instruction_routes": 50000, "c14_instruction_routes_with_little_range": 15000}}


def main(tier, seed):
    cases = build_cases(tier, seed)

    def summarize(v, results, by_id):
        v.rule = (
            "generated street grids (4x4-9x9, speeds drawn from sets spanning 5-130 km/h, one-ways, deleted edges, road length up to 2x the straight line) and the shipped Denver graph (sampled; every ordered pair of its 308 junctions in the thorough tier): "
            "for a link ending at u and a link starting at v the inner part of route() is costed with the graph's own travel_time and compared with an independent heap Dijkstra u->v. non-trivial = a sweep with at least one multi-link inner route; distinct = case hash"
        )
        v.assumptions = ["parallel edges are costed with the minimum travel_time (networkx semantics)"]
        std_summary(v, results, by_id, "c14_multi_link_routes", FLOORS[tier])
        if tier == "thorough":
            v.coverage["exhaustive"] = False
            v.coverage["denver_all_pairs"] = True

    return run_check("C14", tier, seed, cases, summarize)
