"""C12 - the trip dispatcher returns a valid minimum-cost matching."""
from hivemon.checks.common import BUILTIN, hostile_stack, shipped_case, simple_main, trace_case

PROFILE = {
    "n_vehicles": (1, 25),
    "n_requests": (40, 400),
    "soc": [0.05, 0.1, 0.2, 0.3, 0.5, 0.8, 1.0],
    "colocate": 0.5,
    "spread": 0.01,
    "dts": [30, 60, 120, 300],
    "timeouts": [600, 1800, 3600],
    "p_human": 0.3,
    "p_ice": 0.3,
    "steps": (60, 160),
}


def build_cases(tier, seed):
    n = 96 if tier == "quick" else 3000
    cases = []
    for i in range(n):
        s = seed * 100000 + 12000 + i
        prof = dict(PROFILE)
        prof["fleets"] = [0, 2, 3, 0, 2][i % 5]
        if i % 4 == 3:
            prof["n_vehicles"] = (0, 4)  # more requests than vehicles
        if i % 4 == 2:
            prof["n_requests"] = (5, 30)  # more vehicles than requests
        if i % 7 == 6:
            prof["network"] = "grid"
        from hivemon.gen.scenario import random_spec

        steps = min(random_spec(s, prof)["sim"]["steps"], 160 if tier == "quick" else 300)
        ctrl = BUILTIN if i % 2 == 0 else hostile_stack(p=0.15, builtin=True)  # hostile: vehicles in every activity
        cases.append(trace_case("C12", i, s, prof, ctrl, steps, ["C12"], opts={"c12_extra": 3}))
    if tier == "thorough":
        for w in ("denver_downtown/denver_demo.yaml", "denver_downtown/denver_demo_fleets.yaml"):
            cases.append(shipped_case("C12", w, 600, ["C12"], opts={"c12_extra": 5}, tag="b"))
    return cases


main = simple_main(
    "C12",
    build_cases,
    "c12_nontrivial_passes",
    {
        "quick": {"c12_invocations": 5000, "c12_direct_invocations": 3000, "c12_nontrivial_passes": 3000, "c12_rectangular_passes": 2000, "c12_optimum_checks": 3000, "set:c12_shapes": 30, "set:c12_dispatchable_states": 8},
        "thorough": {"c12_invocations": 80000, "c12_direct_invocations": 50000, "c12_nontrivial_passes": 50000, "c12_rectangular_passes": 30000, "c12_optimum_checks": 50000, "set:c12_shapes": 60, "set:c12_dispatchable_states": 8},
    },
    "every invocation of the real Dispatcher during scenario runs (0-25 vehicles x up to dozens of waiting requests, clustered and co-located positions, 0-3 fleets incl. multi-fleet vehicles, human drivers on/off shift, charge levels around the thresholds; "
    "hostile control puts vehicles into every activity through real transitions) plus direct invocations on every third reached state under randomized dispatcher settings (which activities are dispatchable, range thresholds placed at the charge levels present). "
    "Eligibility is recomputed by the monitor's own code using the property's wording (member of the fleet); the optimum by brute force (small) or network simplex. non-trivial = a pass with at least one eligible vehicle and request; distinct = case hash",
    ["requests carry at most one fleet id", "a pass in which a vehicle's range is within 1e-9 of a threshold is skipped (float boundary)"],
)
