"""C01 - runs are reproducible across processes and hash seeds (differential executions, one process each)."""
from __future__ import annotations

import json
import random
import time
from typing import Any, Dict, List

from hivemon.checks.common import run_check
from hivemon.verdict import sum_counters

PROFILE = {
    "n_vehicles": (6, 16),
    "n_requests": (60, 260),
    "soc": [0.05, 0.08, 0.12, 0.2, 0.5, 0.9],
    "colocate": 0.5,
    "spread": 0.012,
    "dts": [30, 60, 61, 120],
    "timeouts": [60, 600],
    "p_human": 0.25,
    "p_ice": 0.2,
    "plug_counts": [2, 3],
    "n_stations": (2, 5),
    "custom_chargers": 0.5,
}

NAMES = [
    lambda k, i: f"{k}{i}",
    lambda k, i: f"{k}{i:03d}",
    lambda k, i: f"{k}_{'abcdefghijklmnopqrstuvwxyz'[i % 26]}{i}",
    lambda k, i: f"{i}{k}x",
]


def tie_spec(seed: int) -> Dict[str, Any]:
    """tie-rich scenario: order dependence only shows on ties."""
    import h3

    from hivemon.gen.scenario import random_spec

    rnd = random.Random(seed * 31 + 5)
    prof = dict(PROFILE)
    _ = rnd.choice(["euclidean", "euclidean", "euclidean", "grid"])  # (keeps the random stream of earlier versions)
    prof["network"] = "grid" if seed % 3 == 2 else "euclidean"  # every third scenario on a street network
    if prof["network"] == "grid":
        prof["grid"] = {"oneway": 0.0, "n": 5 + seed % 3}  # two-way streets throughout: both directions of a street are distinct links
    prof["fleets"] = rnd.choice([0, 2, 3, 3])
    prof["prices"] = rnd.choice(["geoid", "geoid", "station", "none"])
    sttc = seed % 3 == 1  # every third scenario ranks stations by estimated time to charge
    prof["search_type"] = "shortest_time_to_charge" if sttc else "nearest_shortest_queue"
    if sttc:
        prof["custom_chargers"] = 1.0  # FAST150 next to DCFC: equal estimates for a vehicle limited to 50 kW
    spec = random_spec(seed, prof)
    elec = ["LEVEL_2", "DCFC", "LEVEL_1"] if not sttc else ["DCFC", "FAST150", "LEVEL_2"]
    # (a) every public station offers two or three equally ranked on-shift plug types with no queue
    for s in spec["stations"]:
        if s["id"].startswith("s"):
            have = {p["charger"] for p in s["plugs"]}
            for c in rnd.sample(elec, 2):
                if c not in have:
                    s["plugs"].append({"charger": c, "count": rnd.choice([2, 3]), "on_shift": True})
            for p in s["plugs"]:
                p["on_shift"] = True
    # (b) stations at exactly equal grid distance from a low-charge vehicle, in different search cells
    if spec["network"]["type"] == "euclidean":
        for j, v in enumerate(spec["vehicles"][: rnd.randint(2, 3)]):
            # the vehicle stands at the centre of its search cell; the stations lie ~1.5 km away in the neighbouring
            # search cells, so the first ring that finds any of them finds all of them, at equal distance
            c7 = h3.h3_to_parent(h3.geo_to_h3(v["lat"], v["lon"], 15), 7)
            if j > 0:
                c7 = sorted(h3.hex_ring(c7, 3))[(j * 5) % 18]  # other tie vehicles far enough to have their own stations
            cell = h3.geo_to_h3(*h3.h3_to_geo(c7), 15)
            la, lo = h3.h3_to_geo(cell)
            v["lat"], v["lon"] = la, lo
            v["soc"] = rnd.choice([0.05, 0.08])
            v["mech"] = "leaf_50"
            v.pop("schedule", None)
            v.pop("home_base", None)
            # every second tie vehicle gets its stations ~300 m away instead: equal distance *inside* one search cell
            d = rnd.choice([1600, 1750, 1900]) if j % 2 == 0 else rnd.choice([250, 320, 400])
            ring = sorted(h3.hex_ring(cell, d))
            nq = rnd.randint(3, 5)
            for q in range(nq):
                c = ring[((q * len(ring)) // nq + rnd.randint(0, 50)) % len(ring)]
                sla, slo = h3.h3_to_geo(c)
                spec["stations"].append({"id": f"st{j}_{q}", "lat": sla, "lon": slo, "plugs": [{"charger": "DCFC", "count": 2, "on_shift": True}, {"charger": "FAST150" if sttc else "LEVEL_2", "count": 2, "on_shift": True}]})
        # closer stations would win without a tie: keep only the ring stations and the base stations public
        spec["stations"] = [s for s in spec["stations"] if not (s["id"].startswith("s") and not s["id"].startswith("st"))] or spec["stations"]
        if spec.get("fleets"):
            for fid in spec["fleets"]:
                spec["fleets"][fid]["stations"] = [x for x in spec["fleets"][fid]["stations"] if any(s["id"] == x for s in spec["stations"])]
        if spec.get("prices") and spec["prices"]["by"] == "station":
            ids = {s["id"] for s in spec["stations"]}
            spec["prices"]["rows"] = [r for r in spec["prices"]["rows"] if r[1] in ids or r[1] == "no_such_station"]
    # (c) vehicles in several fleets with requests of each fleet near them
    if spec.get("fleets"):
        fids = sorted(spec["fleets"])
        for v in spec["vehicles"][::2]:
            for fid in fids:
                if v["id"] not in spec["fleets"][fid]["vehicles"]:
                    spec["fleets"][fid]["vehicles"].append(v["id"])
    # (d) nested tariff regions in one window
    if spec.get("prices") and spec["prices"]["by"] == "geoid":
        rows = spec["prices"]["rows"]
        extra = []
        for t, key, c, p in rows:
            if rnd.random() < 0.5:
                res = h3.h3_get_resolution(key)
                for s in spec["stations"]:
                    g = h3.geo_to_h3(s["lat"], s["lon"], 15)
                    if h3.h3_to_parent(g, res) == key:
                        r2 = rnd.choice([x for x in (5, 6, 7, 8, 9, 10) if x != res])
                        extra.append([t, h3.h3_to_parent(g, r2), c, round(rnd.uniform(0, 1), 3)])
                        break
        rows.extend(extra)
        rows.sort(key=lambda r: r[0])
    # (e) entity ids from several naming schemes (which pairs collide in a HAMT depends on the strings)
    nm = NAMES[seed % len(NAMES)]
    ren: Dict[str, str] = {}
    for kind, pref in (("vehicles", "v"), ("stations", "s"), ("bases", "b"), ("requests", "r")):
        for i, e in enumerate(spec[kind]):
            ren[e["id"]] = nm(e["id"].rstrip("0123456789_") or pref, i)
    if len(set(ren.values())) == len(ren):
        _rename(spec, ren)
    # (f) two human drivers going home to the same base (whose private membership the base ends up with must not depend on
    # iteration order)
    if seed % 4 == 3:
        humans = [v for v in spec["vehicles"] if v.get("home_base")]
        if len(humans) >= 2:
            humans[1]["home_base"] = humans[0]["home_base"]
    spec["global"]["log_events"] = False
    return spec


def _rename(spec, ren):
    for kind in ("vehicles", "stations", "bases", "requests"):
        for e in spec[kind]:
            e["id"] = ren[e["id"]]
    for v in spec["vehicles"]:
        if v.get("home_base"):
            v["home_base"] = ren[v["home_base"]]
    for b in spec["bases"]:
        if b.get("station"):
            b["station"] = ren[b["station"]]
    if spec.get("fleets"):
        for fid, m in spec["fleets"].items():
            for k in ("vehicles", "stations", "bases"):
                m[k] = [ren[x] for x in m[k]]
    if spec.get("prices") and spec["prices"]["by"] == "station":
        for r in spec["prices"]["rows"]:
            r[1] = ren.get(r[1], r[1])


def run_exec(case: Dict[str, Any]) -> Dict[str, Any]:
    """one execution in this process (its PYTHONHASHSEED was set by the pool): per-step fingerprints."""
    import contextlib
    import io
    import os

    from hivemon import hooks
    from hivemon.drive.tracer import Ctx, cleanup, load_case
    from hivemon.common import quiet_stdout, silence_logging
    from hivemon.fingerprint import entity_fps, fp_reports, digest
    from hivemon.monitors.base import aname

    silence_logging()
    hooks.install(["ties"])
    hooks.REC.calls.clear()
    import nrel.hive.app.hive_cosim as hc

    ctx = Ctx({"spec": case["spec"], "controller": case.get("controller"), "opts": {"record_generators": False}, "case_seed": 0})
    steps = []
    summary = None
    error = None
    try:
        rp = load_case(ctx)
        from nrel.hive.runner.runner_payload_ops import set_instruction_generators, update_instruction_generator_safe

        for k in range(int(case["steps"])):
            if k % 5 == 2:
                # what a co-simulation client may do between calls without changing anything: hand one generator, or all of
                # them, back to the payload
                names = list(rp.u.step_update.instruction_generator_order)
                if k % 10 == 2 and names and type(rp.u.step_update.instruction_generators[names[0]]).__name__ == names[0]:
                    res = update_instruction_generator_safe(rp, rp.u.step_update.instruction_generators[names[0]])
                    from returns.result import Failure

                    if not isinstance(res, Failure):
                        rp = res.unwrap()
                        hooks.REC.calls["cosim_single_generator_updates"] += 1
                else:
                    rp = set_instruction_generators(rp, tuple(rp.u.step_update.ordered_instruction_generators))
                    hooks.REC.calls["cosim_generator_swaps"] += 1
            with quiet_stdout():
                rp = hc.crank(rp, 1).runner_payload
            ef = entity_fps(rp.s, ids=False)
            ents = {f"{a}:{b}": v[:10] for (a, b), v in ef.items()}
            acts = {v.id: aname(v) + ":" + str(getattr(v.vehicle_state, "station_id", getattr(v.vehicle_state, "request_id", getattr(v.vehicle_state, "base_id", "")))) for v in rp.s.vehicles.values()}
            steps.append({"t": int(rp.s.sim_time), "state": digest(sorted(ents.items())), "events": fp_reports(ctx.handler.cur), "n_events": len(ctx.handler.cur), "ents": ents, "acts": acts})
        with contextlib.redirect_stdout(io.StringIO()):
            summary = rp.e.reporter.get_summary_stats(rp)
        summary = json.loads(json.dumps(summary, sort_keys=True, default=str))
    except Exception as e:
        # an execution that fails is an outcome like any other: it is compared with the other executions of the scenario
        # (all of them failing alike = an unusable scenario, reported as a harness problem, never as a verdict)
        import traceback

        tb = traceback.extract_tb(e.__traceback__)
        if any("/hivemon/" in f.filename for f in tb[-1:]):
            raise
        last = next((f for f in reversed(tb) if "/nrel/hive/" in f.filename), tb[-1])
        error = {"type": type(e).__name__, "where": f"{os.path.basename(last.filename)}:{last.name}", "message": str(e)[:300], "after_steps": len(steps)}
    finally:
        cleanup(ctx)
    return {"id": case["id"], "scenario": case["scenario"], "hashseed": os.environ.get("PYTHONHASHSEED"), "tz": os.environ.get("TZ"), "solo": bool(case.get("solo")), "position_in_process": _bump_position(), "steps": steps, "summary": summary, "error": error, "hook_calls": dict(hooks.REC.calls), "violations": [], "counters": {"steps": len(steps)}}


_POSITION = [0]


def _bump_position() -> int:
    _POSITION[0] += 1
    return _POSITION[0] - 1


# POSIX TZ strings (no tz database needed); None = the sandbox's own setting (UTC)
TZS = [None, "MST7", "JST-9", "CET-1CEST,M3.5.0,M10.5.0/3"]


def shipped_spec(which, overrides=None):
    return {"shipped": which, "overrides": overrides or {}, "global": {"log_events": False}}


def build_cases(tier, seed):
    if tier == "quick":
        n_scen, hss, steps = 8, ["0", "1", "2", "3"], 220
    else:
        n_scen, hss, steps = 80, ["0", "1", "2", "3", "4", "random"], 500
    cases = []
    scen = []
    for i in range(n_scen):
        s = seed * 1000 + i
        scen.append((f"tie{s}", tie_spec(s), steps))
    # queue contention: several vehicles join one queue in the same step (equal enqueue time), then a plug frees
    from hivemon.checks.c18 import queue_spec

    for i in range(max(2, n_scen // 4)):
        qs, qsteps = queue_spec(seed * 1000 + 500 + i)
        qs["global"]["log_events"] = False
        scen.append((f"queue{seed * 1000 + 500 + i}", qs, min(qsteps, steps)))
    scen.append(("denver_demo_fleets", shipped_spec("denver_downtown/denver_demo_fleets.yaml"), 260 if tier == "quick" else 700))
    if tier == "thorough":
        scen.append(("denver_demo", shipped_spec("denver_downtown/denver_demo.yaml"), 700))
        scen.append(("denver_demo_constrained", shipped_spec("denver_downtown/denver_demo_constrained_charging.yaml"), 900))
        scen.append(("denver_rl_toy", shipped_spec("denver_downtown/denver_rl_toy.yaml"), 300))
    for j, (name, spec, st) in enumerate(scen):
        # every third generated scenario adds the hostile generator (a pure function of seed, sim time and vehicle id,
        # SHA-256 based): all activities and rejection paths get exercised for order dependence as well
        ctrl = {"stack": ["Dispatcher", "ChargingFleetManager", {"hostile": {"p": 0.2, "seed": 7}}]} if name.startswith("tie") and j % 3 == 2 else None
        if name.startswith("tie") and j % 3 == 1:
            # a generator that draws from the process-wide random module (as examples/cosim_custom_dispatcher.py does):
            # loading a scenario seeds it, so its draws are the same in every process
            ctrl = {"stack": ["Dispatcher", "ChargingFleetManager", {"random_draw": {"k": 2}}]}
        if name.startswith("queue"):
            ctrl = {"stack": ["ChargingFleetManager", {"benign_queue": {"p_leave": 0.05, "p_abandon": 0.02, "seed": 3}}]}
        for k, hs in enumerate(hss):
            c = {"engine": "c01_exec", "id": f"C01-{name}-hs{hs}-{len(cases)}", "scenario": name, "spec": spec, "steps": st, "hashseed": hs, "controller": ctrl}
            if TZS[k % len(TZS)]:
                c["env"] = {"TZ": TZS[k % len(TZS)]}  # "whichever process runs it": the host's time zone is a property of the process
            cases.append(c)
        # the first seed is repeated in a process of its own: plain process-to-process repeatability, and "first simulation
        # this interpreter loads" against "loaded after other scenarios in the same interpreter" (the shared workers above)
        cases.append({"engine": "c01_exec", "id": f"C01-{name}-hs{hss[0]}-solo-{len(cases)}", "scenario": name, "spec": spec, "steps": st, "hashseed": hss[0], "controller": ctrl, "solo": True})
    # shared workers run their scenarios in a different order per hash seed, so a scenario has different predecessors
    out = [c for c in cases if c.get("solo")]
    for k, hs in enumerate(hss):
        cs = [c for c in cases if not c.get("solo") and c["hashseed"] == hs]
        r = (k * 5 + 1) % max(1, len(cs))
        cs = cs[r:] + cs[:r]
        if k % 2:
            cs.reverse()
        out.extend(cs)
    return out


def main(tier, seed):
    cases = build_cases(tier, seed)

    def summarize(v, results, by_id):
        v.rule = (
            "each scenario is executed in separate interpreter processes under different PYTHONHASHSEED values and host time zones (TZ), once alone in a process of its own and otherwise after other scenarios in shared processes whose order differs; every process reports per-step fingerprints of all entities (instance ids dropped, set-valued fields sorted), "
            "the multiset of canonicalised events of each step and the summary statistics; any difference is a violation with the first diverging step and entity as witness. Scenarios are tie-rich: equally ranked plug types, stations at equal "
            "grid distance in different search cells, vehicles in several fleets, nested tariff regions, several id naming schemes, plus the shipped denver_demo_fleets scenario. non-trivial = a scenario in which the code faced at least one counted tie; distinct = scenario"
        )
        v.assumptions = ["built-in controllers, the SHA-256 based hostile generator and one generator that draws from the random module seeded by load_scenario (the determinism of any other user controller is the user's business)", "the scenario generator itself is hash-seed independent (random.Random(seed), no set iteration)"]
        by_scen: Dict[str, List[Dict[str, Any]]] = {}
        for r in results:
            if "steps" in r and "scenario" in r:
                by_scen.setdefault(r["scenario"], []).append(r)
        compared = 0
        ties = {"tie_plug_rank": 0, "tie_multi_fleet_double_proposal": 0, "nearest_entity_calls": 0, "tie_nearest_entity": 0, "tie_nearest_entity_across_search_cells": 0}
        after_others = 0
        for name, rs in sorted(by_scen.items()):
            rs.sort(key=lambda r: (not r.get("solo"), r["id"]))  # the reference is the execution that had an interpreter to itself
            ref = rs[0]
            after_others += sum(1 for r in rs if r.get("position_in_process", 0) > 0)
            if all(r.get("error") for r in rs):
                v.problems.append(f"scenario {name} fails in every execution: {ref['error']}")
                continue
            hc = ref.get("hook_calls", {})
            for k in ties:
                ties[k] += hc.get(k, 0)
            if hc.get("tie_plug_rank", 0) + hc.get("tie_multi_fleet_double_proposal", 0) > 0:
                v.nontrivial({"scenario": name})
            for o in rs[1:]:
                compared += 1
                w = first_difference(ref, o)
                if w is not None:
                    case = by_id.get(o["id"], {})
                    v.violate(w["mechanism"], f"scenario {name}: hash seed {ref['hashseed']} vs {o['hashseed']}: {w['message']}", {"differential": [by_id.get(ref["id"], {}), case]}, **w.get("witness", {}))
            v.samples.append({"scenario": name, "executions": len(rs), "hash_seeds": [r["hashseed"] for r in rs], "time_zones": sorted({str(r.get("tz")) for r in rs}), "steps": len(ref["steps"]), "events": sum(s["n_events"] for s in ref["steps"]), "ties": {k: hc.get(k, 0) for k in ties}})
        v.coverage["executions_compared"] = compared
        v.coverage["executions_after_other_scenarios_in_the_same_process"] = after_others
        v.floor("executions_after_other_scenarios_in_the_same_process", after_others, len(by_scen))
        v.coverage["tie_opportunities"] = ties
        v.coverage["steps_compared"] = sum(len(rs[0]["steps"]) * (len(rs) - 1) for rs in by_scen.values())
        v.floor("executions_compared", compared, (len(cases) * 3) // 5)
        v.floor("tie_plug_rank", ties["tie_plug_rank"], 20)
        v.floor("tie_multi_fleet_double_proposal", ties["tie_multi_fleet_double_proposal"], 5)
        v.floor("scenarios", len(by_scen), 3)

    return run_check("C01", tier, seed, cases, summarize, timeout_s=2400.0, hashseed="0")


def first_difference(a, b):
    ea, eb = a.get("error"), b.get("error")
    if (ea is None) != (eb is None) or (ea and eb and (ea["type"], ea["where"], ea["after_steps"]) != (eb["type"], eb["where"], eb["after_steps"])):
        def d(r):
            e = r.get("error")
            how = "alone in its process" if r.get("solo") else f"as simulation #{r.get('position_in_process', 0) + 1} of its process"
            return f"{how}: " + (f"{e['type']} in {e['where']} after {e['after_steps']} steps ({e['message'][:120]})" if e else f"ran {len(r['steps'])} steps")
        return {"mechanism": "fails-in-one-process-only", "message": f"{d(a)} / {d(b)}"}
    for k, (x, y) in enumerate(zip(a["steps"], b["steps"])):
        if x["t"] != y["t"]:
            return {"mechanism": "clock-differs", "message": f"step {k}: clock {x['t']} vs {y['t']}"}
        if x["state"] != y["state"]:
            diff = sorted(e for e in set(x["ents"]) | set(y["ents"]) if x["ents"].get(e) != y["ents"].get(e))
            acts = {e.split(":", 1)[1]: (x["acts"].get(e.split(":", 1)[1]), y["acts"].get(e.split(":", 1)[1])) for e in diff if e.startswith("vehicles:")}
            kind = diff[0].split(":")[0] if diff else "state"
            return {"mechanism": f"state-differs-{kind}", "message": f"step {k} (t={x['t']}): entities {diff[:5]} differ; activities {dict(list(acts.items())[:3])}", "witness": {"step": k, "entities": diff[:8]}}
        if x["events"] != y["events"]:
            return {"mechanism": "events-differ", "message": f"step {k} (t={x['t']}): same states but different event multisets ({x['n_events']} vs {y['n_events']} events)", "witness": {"step": k}}
    if len(a["steps"]) != len(b["steps"]):
        return {"mechanism": "length-differs", "message": f"{len(a['steps'])} vs {len(b['steps'])} steps"}
    if a["summary"] != b["summary"]:
        keys = [k for k in a["summary"] if a["summary"].get(k) != b["summary"].get(k)]
        return {"mechanism": "summary-differs", "message": f"summary statistics differ in {keys}", "witness": {"keys": keys}}
    return None
