"""C13 - routes are connected paths from origin to destination; snapping lands on the named link."""
from __future__ import annotations

import collections
import random
from typing import Any, Dict

from hivemon.checks.common import hostile_stack, BUILTIN, run_check, std_summary, trace_case
from hivemon.gen import graph as G


def build_network(net: Dict[str, Any]):
    from nrel.hive.model.roadnetwork.haversine_roadnetwork import HaversineRoadNetwork
    from nrel.hive.model.roadnetwork.osm.osm_roadnetwork import OSMRoadNetwork

    from hivemon.gen import graph as G

    if net["type"] == "grid":
        return OSMRoadNetwork(G.grid(net), default_speed_kmph=float(net.get("default_speed_kmph", 40.0)))
    if net["type"] == "denver":
        return OSMRoadNetwork(G.denver())
    if net["type"] == "manhattan":
        return OSMRoadNetwork(G.manhattan())
    return HaversineRoadNetwork()


def check_route(rn, o, d, r, violate, count, osm: bool):
    count("c13_routes")
    if not r:
        if o != d:
            if o.geoid == d.geoid:
                violate("empty-route-between-different-links", f"empty route from {o} to {d} (same cell, different links)")
            else:
                violate("empty-route-between-different-positions", f"empty route from {o} to {d}")
        else:
            count("c13_empty_routes_same_position")
        return
    count("c13_nonempty_routes")
    if r[0].start != o.geoid:
        violate("route-does-not-start-at-origin", f"route {o}->{d} starts at {r[0].start}")
    if r[-1].end != d.geoid:
        violate("route-does-not-end-at-destination", f"route {o}->{d} ends at {r[-1].end}")
    for a, b in zip(r, r[1:]):
        if a.end != b.start:
            violate("route-links-do-not-join", f"route {o}->{d}: {a.link_id} ends at {a.end}, {b.link_id} starts at {b.start}")
            break
    if osm:
        if r[0].link_id != o.link_id:
            violate("first-link-is-not-origin-link", f"route {o}->{d} first link {r[0].link_id}")
        if r[-1].link_id != d.link_id:
            violate("last-link-is-not-destination-link", f"route {o}->{d} last link {r[-1].link_id}")
    for idx, l in enumerate(r):
        L = rn.link_from_link_id(l.link_id)
        if L is None:
            violate("route-uses-unknown-link", f"route {o}->{d} uses link {l.link_id} which the network does not know")
            continue
        if osm and 0 < idx < len(r) - 1 and (L.start != l.start or L.end != l.end):
            violate("interior-link-ends-differ-from-network", f"route {o}->{d}: interior link {l.link_id} runs {l.start}->{l.end}, network says {L.start}->{L.end}")
        if osm and idx == 0 and l.end != L.end and len(r) > 1:
            violate("first-link-end-differs-from-network", f"route {o}->{d}: first link {l.link_id} ends at {l.end}, network says {L.end}")
        if osm and idx == len(r) - 1 and l.start != L.start and len(r) > 1:
            violate("last-link-start-differs-from-network", f"route {o}->{d}: last link {l.link_id} starts at {l.start}, network says {L.start}")
        if l.distance_km < 0 or (L.distance_km > 0 and l.distance_km > L.distance_km * (1 + 1e-9) and osm):
            violate("link-distance-out-of-range", f"route {o}->{d}: link {l.link_id} distance {l.distance_km} (network {L.distance_km})")


def run_sweep(case: Dict[str, Any]) -> Dict[str, Any]:
    import logging

    logging.disable(logging.CRITICAL)
    import h3
    from nrel.hive.model.entity_position import EntityPosition

    rnd = random.Random(case["seed"])
    viol, vcount, cnt = [], collections.Counter(), collections.Counter()

    def violate(mech, msg, **w):
        vcount[("C13", mech)] += 1
        if vcount[("C13", mech)] <= 3:
            viol.append({"property": "C13", "mechanism": mech, "message": msg, "step": None, "witness": {k: str(v)[:400] for k, v in w.items()}})

    def count(k, n=1):
        cnt[k] += n

    rn = build_network(case["net"])
    osm = case["net"]["type"] != "euclidean"
    if osm:
        links = sorted(rn.link_helper.links.values(), key=lambda l: l.link_id)

        def pos(link=None):
            l = link or rnd.choice(links)
            line = h3.h3_line(l.start, l.end)
            x = rnd.random()
            g = rnd.choice(line) if x < 0.6 else l.start if x < 0.8 else l.end
            return EntityPosition(l.link_id, g)

        by_nodes = {}
        for l in links:
            by_nodes[l.link_id] = l
        for _ in range(case["n"]):
            o = pos()
            x = rnd.random()
            if x < 0.15:  # same link, ahead or behind
                d = pos(by_nodes[o.link_id])
                count("c13_same_link_pairs")
            elif x < 0.3:  # opposite direction of the same street
                a, b = o.link_id.split("-")[:2]
                rev = by_nodes.get(f"{b}-{a}")
                d = pos(rev) if rev is not None else pos()
                if rev is not None:
                    count("c13_opposite_direction_pairs")
            elif x < 0.45:  # adjacent link
                a, b = o.link_id.split("-")[:2]
                adj = [l for l in links if l.link_id.split("-")[0] == b]
                d = pos(rnd.choice(adj)) if adj else pos()
                count("c13_adjacent_pairs")
            elif x < 0.5:
                d = o
            else:
                d = pos()
            r = rn.route(o, d)
            check_route(rn, o, d, r, violate, count, True)
        # snapping
        for _ in range(case["n"]):
            l = rnd.choice(links)
            la, lo = h3.h3_to_geo(rnd.choice([l.start, l.end, rnd.choice(h3.h3_line(l.start, l.end))]))
            g = h3.geo_to_h3(la + rnd.uniform(-1e-3, 1e-3) * rnd.choice([0, 0.01, 1]), lo + rnd.uniform(-1e-3, 1e-3) * rnd.choice([0, 0.01, 1]), 15)
            p = rn.position_from_geoid(g)
            count("c13_snaps")
            if p is None:
                violate("snap-failed", f"position_from_geoid({g}) returned nothing")
                continue
            L = rn.link_from_link_id(p.link_id)
            if L is None:
                violate("snap-names-unknown-link", f"position_from_geoid({g}) names link {p.link_id}")
            elif p.geoid not in h3.h3_line(L.start, L.end):
                violate("snap-not-on-link", f"position_from_geoid({g}) = {p} which is not on link {L.link_id}")
            elif g in h3.h3_line(L.start, L.end) and p.geoid != g:
                violate("snap-moved-a-point-already-on-the-link", f"position_from_geoid({g}) = {p} although {g} is on link {L.link_id}")
    else:
        base = (39.75, -104.99)
        for _ in range(case["n"]):
            def g():
                return h3.geo_to_h3(base[0] + rnd.uniform(-0.05, 0.05) * rnd.choice([1e-4, 0.01, 1]), base[1] + rnd.uniform(-0.05, 0.05) * rnd.choice([1e-4, 0.01, 1]), 15)
            o = rn.position_from_geoid(g())
            d = o if rnd.random() < 0.05 else rn.position_from_geoid(g())
            count("c13_snaps", 2)
            L = rn.link_from_link_id(o.link_id)
            if L is None or o.geoid not in (L.start, L.end):
                violate("snap-not-on-link", f"straight-line snap {o} is not on the link it names")
            r = rn.route(o, d)
            check_route(rn, o, d, r, violate, count, False)
    return {"id": case["id"], "violations": viol, "violation_counts": {f"{p}|{m}": n for (p, m), n in vcount.items()}, "counters": dict(cnt), "summary": {"net": case["net"], "pairs": case["n"], "seed": case["seed"]}}


def build_cases(tier, seed):
    from hivemon.gen.scenario import random_spec

    cases = []
    nsw, per = (24, 1500) if tier == "quick" else (160, 6000)
    rnd = random.Random(seed + 13)
    for j in range(nsw):
        k = j % 6
        if k == 5:
            net = {"type": "euclidean"}
        elif k == 4:
            net = {"type": "denver"}
        else:
            net = {"type": "grid", "n": rnd.randint(3, 8), "seed": rnd.randint(0, 10**6), "speeds": rnd.choice(["varied", "uniform", "slow", "mixed"]), "oneway": rnd.choice([0.0, 0.2, 0.4]), "delete": rnd.choice([0.0, 0.1, 0.2]), "dlat": rnd.choice([0.0003, 0.002, 0.01]), "dlon": rnd.choice([0.0004, 0.0025, 0.012])}
        if k in (1, 3):
            net["stubs"] = rnd.choice([0.2, 0.5])
        if k in (2, 3):
            net["parallel"] = rnd.choice([0.05, 0.15])
        if j % 3 == 1:
            net["latlon_keys"] = True
        if j % 8 == 6:
            # country roads: links of 5-8 km (several thousand location cells each)
            net.update({"n": 3, "dlat": 0.05, "dlon": 0.07})
        if j % 5 == 2:
            net["origin"] = list(G.PLACES[(j // 5) % len(G.PLACES)])  # a town elsewhere on the globe
        cases.append({"engine": "c13_sweep", "id": f"C13-sweep{j}", "seed": seed * 1000 + j, "net": net, "n": per if net.get("dlat", 0) < 0.05 else per // 8})
    if tier == "thorough":
        for j in range(8):
            cases.append({"engine": "c13_sweep", "id": f"C13-manhattan{j}", "seed": seed * 1000 + 900 + j, "net": {"type": "manhattan"}, "n": 3000})
    # every route requested during ordinary scenario runs
    n, steps = (16, 150) if tier == "quick" else (120, 400)
    for i in range(n):
        s = seed * 100000 + 13000 + i
        prof = {"network": ["grid", "denver", "euclidean", "grid"][i % 4], "n_vehicles": (4, 12), "n_requests": (40, 200)}
        # every second run under hostile control: vehicles are re-routed from wherever a step left them inside a link
        ctrl = BUILTIN if i % 2 == 0 else hostile_stack(p=0.25, builtin=True, kinds=["DispatchBase", "DispatchStation", "Reposition", "DispatchTrip", "Idle"])
        cases.append(trace_case("C13", i, s, prof, ctrl, steps, ["C13R"]))
    return cases


FLOORS = {
    "quick": {"c13_routes": 30000, "c13_nonempty_routes": 25000, "c13_same_link_pairs": 2000, "c13_opposite_direction_pairs": 1000, "c13_adjacent_pairs": 2000, "c13_snaps": 25000, "c13_run_routes": 2000},
    "thorough": {"c13_routes": 800000, "c13_nonempty_routes": 700000, "c13_same_link_pairs": 60000, "c13_opposite_direction_pairs": 30000, "c13_adjacent_pairs": 60000, "c13_snaps": 700000, "c13_run_routes": 60000},
}


def main(tier, seed):
    cases = build_cases(tier, seed)

    def summarize(v, results, by_id):
        v.rule = (
            "direct calls of route() and position_from_geoid() on generated street grids (3x3-8x8, jittered nodes, one-ways, deleted edges, link lengths 30 m - 1.5 km), the shipped Denver graph and the straight-line network over sampled position pairs: "
            "same link ahead/behind, opposite directions of one street, adjacent links, link ends and interiors, identical positions; plus a wrapper on every route requested during scenario runs. Post-conditions: starts at origin, ends at destination, "
            "links join, every link known to the network with the network's own end points, empty only for identical positions; a snapped position lies on the h3 line of the link it names. non-trivial = a sweep with non-empty routes; distinct = case hash"
        )
        v.assumptions = ["street graphs are strongly connected (enforced by the loader)"]
        std_summary(v, results, by_id, "c13_nonempty_routes", FLOORS[tier])
        for r in results:
            if (r.get("counters") or {}).get("c13_run_routes", 0) > 0:
                v.nontrivial(by_id.get(r.get("id"), {"id": r.get("id")}))

    return run_check("C13", tier, seed, cases, summarize)
