"""C16 - earlier simulation states are never modified."""
from hivemon.checks.common import BUILTIN, hostile_stack, shipped_case, simple_main, trace_case

PROFILE = {
    "n_vehicles": (2, 12),
    "n_requests": (30, 160),
    "soc": [0.03, 0.1, 0.3, 0.6, 0.9],
    "colocate": 0.4,
    "spread": 0.015,
    "dts": [30, 60, 61, 120, 300],
    "timeouts": [60, 600],
    "p_human": 0.25,
    "p_ice": 0.3,
    "euclidean_default_speed": 0.5,
}


def build_cases(tier, seed):
    n, steps = (64, 160) if tier == "quick" else (600, 400)
    cases = []
    for i in range(n):
        s = seed * 100000 + 16000 + i
        prof = dict(PROFILE)
        prof["network"] = ["euclidean", "grid", "euclidean"][i % 3]
        prof["fleets"] = [0, 2, 0, 3][i % 4]
        ctrl = BUILTIN if i % 2 == 0 else hostile_stack(p=0.25, builtin=True)  # Hostile is a pure function of (seed, sim time, vehicle id)
        if i % 4 == 2:
            ctrl = {"stack": ["Dispatcher", "ChargingFleetManager", {"stateful": {"k": 3}}]}  # state handed on inside the payload
        opts = {"c16_twice_every": 5}
        if i % 4 == 1:
            # vehicle models that accept more power than some plugs give, plugs throttled by a co-simulation client between
            # calls, many vehicles charging at once - and every single state stepped twice
            prof.update({"custom_mech": 1.0, "custom_chargers": 1.0, "soc": [0.03, 0.05, 0.1, 0.2], "p_ice": 0.0, "n_vehicles": (6, 14), "n_stations": (2, 4), "plug_counts": [2, 3]})
            opts = {"c16_twice_every": 1, "cosim_ops": {"every": 7, "kinds": ["scale_rate"]}}
            if i % 8 == 1:
                # built-in control ranking stations by estimated time to charge (queues and sessions in progress enter the
                # estimate), few plugs so that vehicles queue
                ctrl = BUILTIN
                prof.update({"search_type": "shortest_time_to_charge", "plug_counts": [1, 1, 2], "p_human": 0.4, "p_home_station": 0.2})
        if i % 8 == 6:
            # a user-written dispatcher on hive's assignment helper, ruling pairings out with infinite costs; parties of 1-4
            ctrl = {"stack": ["SeatAware", "ChargingFleetManager"]}
            prof.update({"n_requests": (120, 260), "n_vehicles": (5, 12), "soc": [0.5, 0.9], "fleets": 0})
            opts = {"c16_twice_every": 1}
        cases.append(trace_case("C16", i, s, prof, ctrl, steps, ["C16"], opts=opts))
    if tier == "thorough":
        for w in ("denver_downtown/denver_demo.yaml", "denver_downtown/denver_demo_fleets.yaml"):
            cases.append(shipped_case("C16", w, 300, ["C16"], opts={"c16_twice_every": 10}, tag="b"))
        cases.append(shipped_case("C16", "manhattan/manhattan.yaml", 60, ["C16"], opts={"c16_twice_every": 20, "c16_keep_every": 10}, tag="b"))
    return cases


main = simple_main(
    "C16",
    build_cases,
    "c16_step_twice",
    {
        "quick": {"c16_states_retained": 8000, "c16_rechecks": 10000, "c16_step_twice": 1500, "c16_apply_twice": 1500, "c16_what_if_branches": 1000, "c16_earlier_states_stepped_again": 1000, "c16_replays_of_several_steps": 200, "c16_states_of_the_previous_simulation_checked_again": 20},
        "thorough": {"c16_states_retained": 200000, "c16_rechecks": 250000, "c16_step_twice": 40000, "c16_apply_twice": 40000, "c16_what_if_branches": 25000, "c16_earlier_states_stepped_again": 25000, "c16_replays_of_several_steps": 5000, "c16_states_of_the_previous_simulation_checked_again": 300},
    },
    "every state of every run is retained together with its deep fingerprint (NamedTuples, dataclasses, Maps, frozensets, tuples, enums down to scalars, instance ids included); a random subset is re-fingerprinted every 20 steps and all "
    "of them at the end. Every 5th state is stepped twice through the real StepSimulation.update (built-in and state-deterministic hostile control) and the step's instruction batch is applied twice through the real apply_instructions; "
    "results must agree modulo instance ids and the source state must be unchanged. Between the two steppings of a state the monitor branches as a co-simulation client would: it steps an earlier saved state again (its result must equal the one it gave the first time) and steps a what-if copy of the current state (same clock value, one station removed / made private / fully occupied). A quarter of the scenarios use vehicle models that accept more power than some plugs give, throttle plugs between calls and step every state twice. non-trivial = at least one state stepped twice; distinct = case hash",
    ["file readers, the Reporter and road-network objects are mutable by design and not part of a SimulationState (DESIGN 2)"],
)
