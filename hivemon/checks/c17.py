"""C17 - a request's assigned vehicle is really on its way to it."""
from hivemon.checks.common import BUILTIN, hostile_stack, shipped_case, trace_case
from hivemon.checks.sysmix import main_with_sys
from hivemon.drive.systematic import systematic_cases

PROFILE = {
    "n_vehicles": (3, 14),
    "n_requests": (60, 260),
    "soc": [0.004, 0.008, 0.015, 0.03, 0.1, 0.5, 0.9],
    "colocate": 0.2,
    "spread": 0.03,
    "dts": [7, 30, 60, 61, 120],
    "timeouts": [30, 60, 120, 600],
    "custom_mech": 0.5,
    "dispatcher": {"matching_range_km_threshold": 0.5, "charging_range_km_threshold": 0.2, "charging_range_km_soft_threshold": 0.5},
}


def build_cases(tier, seed):
    n, steps = (80, 220) if tier == "quick" else (800, 450)
    cases = []
    for i in range(n):
        s = seed * 100000 + 17000 + i
        prof = dict(PROFILE)
        if i % 5 == 4:
            prof["network"] = "grid"
        # low thresholds let the built-in dispatcher send nearly empty vehicles on trips they cannot finish
        ctrl = BUILTIN if i % 2 == 0 else hostile_stack(p=0.25, builtin=True, kinds=["DispatchTrip", "DispatchTrip", "Idle", "DispatchStation", "Reposition", "OutOfService", "ReserveBase", "DispatchBase"])
        if i % 4 == 3:
            # interruptions only: instructions of every other kind (many of them refused) reach vehicles on their way to a
            # request, but trips are handed out by the built-in dispatcher alone, so "at most one vehicle per request" applies
            ctrl = hostile_stack(p=0.3, builtin=True, kinds=["Idle", "DispatchStation", "ChargeStation", "ChargeBase", "Reposition", "ReserveBase", "ReserveBase", "DispatchBase"])
        if i % 8 == 5:
            # a client that repeats the dispatch of vehicles under way (re-planning): same vehicle, same request - the pairings
            # are still the built-in dispatcher's, so "at most one vehicle per request" applies
            ctrl = {"stack": ["Dispatcher", "ChargingFleetManager", {"resend": {"p": 0.3}}]}
        opts = {}
        if i % 8 in (2, 6):
            prof["fleets"] = [2, 3][(i // 8) % 2]
            # i % 8 == 6: the operator also moves vehicles between fleets while they are on their way (the pick-up is then
            # refused on arrival, every step: the vehicle keeps travelling to the request and the request keeps its record)
            opts = {"cosim_ops": {"every": 2, "kinds": ["change_request_membership"] if i % 8 == 2 else ["change_request_membership", "change_membership", "change_membership"], "prefer_en_route": True}}
        if i % 4 == 0:
            # a co-simulation client adds requests of no fleet between calls (built-in control: "at most one vehicle per request")
            prof["fleets"] = [2, 3][(i // 4) % 2]
            opts = {"inject_requests": {"every": 5, "public": True}, "cosim_ops": {"every": 13, "kinds": ["add_vehicle"]}}
        if i % 8 == 1 or i % 16 == 7:
            # a client that takes vehicles out and puts them back between calls (built-in / interruption-only control)
            if i % 8 == 1:
                ctrl = BUILTIN
            opts = {"cosim_ops": {"every": 3, "kinds": ["pop_readd"]}}
        cases.append(trace_case("C17", i, s, prof, ctrl, steps, ["C17"], opts=opts))
    cases += systematic_cases("C17", tier, seed)
    if tier == "thorough":
        for w in ("denver_downtown/denver_demo.yaml", "denver_downtown/denver_demo_fleets.yaml"):
            cases.append(shipped_case("C17", w, 700, ["C17"], tag="b"))
            cases.append(shipped_case("C17", w, 400, ["C17"], controller=hostile_stack(0.2), tag="h"))
    return cases


main = main_with_sys(
    "C17",
    build_cases,
    "c17_assigned_requests",
    {
        "quick": {"c17_assigned_requests": 3000, "c17_interrupted_dispatches": 200, "c17_out_of_energy_en_route": 10, "sys_transitions": 20000, "cosim_change_membership_of_assigned_request": 10, "cosim_waiting_request_opened_to_second_fleet": 50, "cosim_vehicle_en_route_moved_out_of_the_requests_fleet": 20, "c17_refused_instructions_en_route": 50, "cosim_pop_and_put_back_a_vehicle_on_its_way_to_a_request": 40},
        "thorough": {"c17_assigned_requests": 60000, "c17_interrupted_dispatches": 4000, "c17_out_of_energy_en_route": 200, "sys_transitions": 500000, "cosim_change_membership_of_assigned_request": 100, "cosim_waiting_request_opened_to_second_fleet": 500, "cosim_vehicle_en_route_moved_out_of_the_requests_fleet": 200, "c17_refused_instructions_en_route": 500, "cosim_pop_and_put_back_a_vehicle_on_its_way_to_a_request": 160},
    },
    "journeys started with too little energy (matching thresholds lowered so the built-in dispatcher sends nearly empty vehicles), hostile re-dispatch / interruption / OutOfService instructions, cancellations while en route, interruption-only generators whose (mostly refused) instructions reach vehicles en route, a co-simulation client opening assigned requests to further fleets between calls; "
    "in every state each waiting request that records a vehicle must find it in DispatchTrip to that request (and under built-in control at most one vehicle per request); the systematic driver adds every instruction variant "
    "incl. a vehicle that runs dry within one step. non-trivial = at least one request with a recorded vehicle; distinct = case hash",
    ["'at most one vehicle per request' is judged in runs where no generator other than the built-in dispatcher sends vehicles to requests (built-in stacks, and stacks whose extra generator only interrupts / redirects)"],
)
