"""C02 - charger, queue and parking-stall counts match the vehicles using them."""
from hivemon.checks.common import BUILTIN, hostile_stack, shipped_case, trace_case
from hivemon.checks.sysmix import main_with_sys
from hivemon.drive.systematic import systematic_cases

PROFILE = {
    "n_vehicles": (6, 20),
    "plug_counts": [1, 1, 2],
    "stalls": [1, 1, 2],
    "soc": [0.01, 0.02, 0.03, 0.05, 0.1, 0.3, 0.9],
    "n_stations": (1, 3),
    "n_bases": (1, 3),
    "n_requests": (20, 150),
    "colocate": 0.45,
    "spread": 0.012,
    "dts": [30, 60, 61, 120, 300],
    "timeouts": [60, 600, 601],
    "custom_mech": 0.4,
}


def build_cases(tier, seed):
    n, steps = (96, 200) if tier == "quick" else (960, 400)
    cases = []
    for i in range(n):
        s = seed * 100000 + i
        ctrl = hostile_stack(p=[0.15, 0.3, 0.5][i % 3], builtin=(i % 4 != 3), n=1 + (i % 5 == 4))
        prof = dict(PROFILE)
        if i % 6 == 5:
            prof["network"] = "grid"
        if i % 6 == 3:
            # full batteries arriving at stations and leaving queues (short hops)
            prof.update({"soc": [1.0, 1.0, 0.9995, 0.05, 0.02], "spread": 0.004, "network": "euclidean", "p_human": 0.5, "p_home_station": 0.2})
        opts_ = None
        if i % 10 == 1:
            # a station changes hands while vehicles wait or charge there
            prof["fleets"] = [2, 3, 0][(i // 10) % 3]
            opts_ = {"cosim_ops": {"every": 6, "kinds": ["change_station_membership"]}}
        if i % 10 == 8:
            # a depot that is the home base of up to three drivers, most of whom start the run there
            prof.update({"fleets": 2, "depot": 1.0, "p_human": 0.7, "network": "euclidean"})
        if i % 10 == 6:
            prof["shared_ids"] = 0.6  # ids are per kind: a depot entered as base "b1" with its plugs as station "b1"
        cases.append(trace_case("C02", i, s, prof, ctrl, steps, ["C02"], opts=opts_ or ({"inject_requests": {"every": 6, "public": i % 10 == 7}} if i % 5 == 2 else {"cosim_ops": {"every": 8, "kinds": ["append_plugs", "append_plugs", "scale_rate"]}} if i % 5 == 4 else {})))
    cases += systematic_cases("C02", tier, seed)
    if tier == "thorough":
        for w in ("denver_downtown/denver_demo.yaml", "denver_downtown/denver_demo_constrained_charging.yaml", "denver_downtown/denver_demo_fleets.yaml"):
            cases.append(shipped_case("C02", w, 400, ["C02"], controller=hostile_stack(0.2), tag="h"))
            cases.append(shipped_case("C02", w, 600, ["C02"], tag="b"))
    return cases


main = main_with_sys(
    "C02",
    build_cases,
    "c02_plugs_in_use",
    {
        "quick": {"c02_states_checked": 3000, "set:activities": 9, "set:transitions": 25, "c02_full_plug_states": 50, "c02_full_base_states": 50, "c02_queued": 5, "sys_transitions": 20000, "cosim_change_membership_of_station_in_use": 20},
        "thorough": {"c02_states_checked": 100000, "set:activities": 11, "set:transitions": 40, "c02_full_plug_states": 1000, "c02_full_base_states": 1000, "c02_queued": 100, "c02_out_of_energy": 5, "sys_transitions": 500000, "cosim_change_membership_of_station_in_use": 80},
    },
    "generated contention scenarios (1-2 plugs / stalls for 6-20 low-charge vehicles) under hostile + built-in control, plus shipped Denver scenarios in the thorough tier; "
    "after every step (and in every state reached by the bounded systematic driver over four contention worlds) the counters are recomputed from the vehicles' activities. non-trivial = at least one plug in use during the run; distinct = distinct case hash",
    ["one crank(1) is one step; counters compared at step boundaries", "vehicles on a plug type the station does not install have no counter and are out of scope"],
)
