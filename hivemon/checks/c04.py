"""C04 - vehicle energy stays physical and fully accounted for (trace ledger + function-level sweep)."""
import random

from hivemon.checks.common import BUILTIN, hostile_stack, run_check, shipped_case, std_summary, trace_case

PROFILE = {
    "p_ice": 0.45,
    "custom_mech": 0.7,
    "custom_chargers": 0.6,
    "soc": [0.005, 0.01, 0.02, 0.05, 0.1, 0.3, 0.6, 0.97, 1.0],
    "dts": [1, 7, 30, 45, 59, 60, 61, 90, 97, 120, 300, 900],
    "n_vehicles": (3, 12),
    "n_requests": (20, 120),
    "plug_counts": [1, 2, 3],
    "spread": 0.02,
}


def build_cases(tier, seed):
    n, steps = (80, 200) if tier == "quick" else (800, 450)
    cases = []
    for i in range(n):
        s = seed * 100000 + 4000 + i
        prof = dict(PROFILE)
        if i % 5 == 4:
            prof["network"] = "grid"
        ctrl = BUILTIN if i % 2 == 0 else hostile_stack(p=0.2, builtin=True)
        cases.append(trace_case("C04", i, s, prof, ctrl, steps, ["C04"], opts=({"cosim_ops": {"every": 7, "kinds": ["scale_rate", "scale_rate", "add_vehicle"]}} if i % 4 == 1 else {})))
    # queues that hold (nearly) full vehicles: a depot rule sends full vehicles to the busy plug as well (the C18 queue scenarios)
    from hivemon.checks.c18 import queue_spec

    for j in range(8 if tier == "quick" else 80):
        sq = seed * 100000 + 4800 + 4 * j + 2  # (seeds with sq % 4 == 2 are the ones with full vehicles)
        spec, st = queue_spec(sq)
        ctrl = {"stack": ["ChargingFleetManager", {"benign_queue": {"p_leave": [0.0, 0.03][j % 2], "p_abandon": 0.0, "p_resend": 0.0, "p_topup": 0.3, "p_send": 0.0}}]}
        cases.append(trace_case("C04", j, sq, {}, ctrl, st, ["C04"], spec=spec, tag="queue"))
    nsweep = 16 if tier == "quick" else 64
    per = 4000 if tier == "quick" else 20000
    for j in range(nsweep):
        cases.append({"engine": "c04_sweep", "id": f"C04-sweep{j}", "seed": seed * 1000 + j, "n": per})
    if tier == "thorough":
        for w in ("denver_downtown/denver_demo.yaml", "denver_downtown/denver_demo_constrained_charging.yaml"):
            cases.append(shipped_case("C04", w, 600, ["C04"], tag="b"))
    return cases


def run_sweep(case):
    """direct randomized sweep of consume_energy / idle / add_energy over (powertrain, charger, level, route, dt)."""
    import collections
    import logging

    logging.disable(logging.CRITICAL)
    from nrel.hive.model.energy.charger import Charger
    from nrel.hive.model.energy.energytype import EnergyType
    from nrel.hive.model.roadnetwork.linktraversal import LinkTraversal
    from nrel.hive.resources.mock_lobster import mock_vehicle, somewhere, somewhere_else

    from hivemon.monitors.ledgers import check_add, check_consume, check_idle

    rnd = random.Random(case["seed"])
    viol = []
    vcount = collections.Counter()
    cnt = collections.Counter()

    def violate(prop, mechanism, msg, **w):  # (witness keys are free: "mech" is one of them)
        vcount[(prop, mechanism)] += 1
        if vcount[(prop, mechanism)] <= 3:
            viol.append({"property": prop, "mechanism": mechanism, "message": msg, "step": None, "witness": {k: str(v) for k, v in w.items()}})

    def count(k, n=1):
        cnt[k] += n

    import os
    import tempfile

    import yaml
    from nrel.hive.model.vehicle.mechatronics import build_mechatronics_table

    from hivemon.common import scratch_base

    table = {}
    for k in range(6):
        table[f"bev{k}"] = {
            "mechatronics_type": "bev",
            "powercurve_file": "normalized.yaml",
            "powertrain_file": "normalized-electric.yaml",
            "battery_capacity_kwh": rnd.choice([8, 20, 50, 100]),
            "nominal_max_charge_kw": rnd.choice([6, 50, 120, 250]),
            "charge_taper_cutoff_kw": rnd.choice([5, 10, 60]),
            "nominal_watt_hour_per_mile": rnd.choice([150, 225, 600]),
            "idle_kwh_per_hour": rnd.choice([0.2, 0.8, 3.0]),
        }
        table[f"ice{k}"] = {
            "mechatronics_type": "ice",
            "tank_capacity_gallons": rnd.choice([2, 10, 20]),
            "idle_gallons_per_hour": rnd.choice([0.05, 0.2, 0.6]),
            "powertrain_file": "normalized-gasoline.yaml",
            "nominal_miles_per_gallon": rnd.choice([12, 30, 55]),
        }
    d = tempfile.mkdtemp(prefix="c04_", dir=scratch_base())
    try:
        with open(os.path.join(d, "mech.yaml"), "w") as f:
            yaml.safe_dump(table, f)
        mechs = [m for _, m in sorted(build_mechatronics_table(os.path.join(d, "mech.yaml"), d).items())]
    finally:
        import shutil

        shutil.rmtree(d, ignore_errors=True)
    chargers = [
        Charger("L1", EnergyType.ELECTRIC, 3.3, "kilowatts"),
        Charger("L2", EnergyType.ELECTRIC, 7.2, "kilowatts"),
        Charger("DC", EnergyType.ELECTRIC, 50.0, "kilowatts"),
        Charger("F150", EnergyType.ELECTRIC, 150.0, "kilowatts"),
        Charger("TR", EnergyType.ELECTRIC, 1.4, "kilowatts"),
        Charger("PUMP", EnergyType.GASOLINE, 0.16, "gal_per_second"),
        Charger("SLOWPUMP", EnergyType.GASOLINE, 0.01, "gal_per_second"),
    ]
    src, dst = somewhere(), somewhere_else()
    for _ in range(case["n"]):
        m = rnd.choice(mechs)
        soc = rnd.choice([0.0, 1e-6, 0.01, rnd.random(), rnd.random(), 0.95, 0.99, 0.999, 1.0])
        v = mock_vehicle(soc=soc, mechatronics=m)
        op = rnd.choice(["add", "add", "idle", "move"])
        dt = rnd.choice([1, 7, 30, 59, 60, 61, 90, 97, 120, 300, 900, rnd.randint(1, 1000)])
        if op == "add":
            c = rnd.choice(chargers)
            v2, t = m.add_energy(v, c, dt)
            check_add(violate, count, {"mech": m, "v0": v, "v1": v2, "dt": dt, "charger": c})
        elif op == "idle":
            v2 = m.idle(v, dt)
            check_idle(violate, count, {"mech": m, "v0": v, "v1": v2, "dt": dt})
        else:
            speed = rnd.choice([1, 5, 25, 40, 65, 100, 130])
            r = tuple(LinkTraversal("a-b", src, dst, rnd.choice([0.003, 0.1, 1, 5, 40]), speed) for _ in range(rnd.randint(1, 4)))
            v2 = m.consume_energy(v, r)
            check_consume(violate, count, {"mech": m, "v0": v, "v1": v2, "route": r})
    return {"id": case["id"], "violations": viol, "violation_counts": {f"{p}|{m}": n for (p, m), n in vcount.items()}, "counters": dict(cnt), "summary": {"sweep_seed": case["seed"], "calls": case["n"]}}


FLOORS = {
    "quick": {"c04_vehicle_steps": 50000, "c04_moves": 3000, "c04_idle_steps": 10000, "c04_charge_steps": 3000, "c04_out_of_energy": 20, "c04_add_calls": 20000, "c04_idle_calls": 20000, "c04_consume_calls": 10000},
    "thorough": {"c04_vehicle_steps": 1000000, "c04_moves": 50000, "c04_idle_steps": 200000, "c04_charge_steps": 50000, "c04_out_of_energy": 300, "c04_add_calls": 500000, "c04_idle_calls": 300000, "c04_consume_calls": 200000},
}


def main(tier, seed):
    cases = build_cases(tier, seed)

    def summarize(v, results, by_id):
        v.rule = (
            "scenario runs with both powertrain types, generated BEV/ICE definitions and chargers above/below the taper cutoff, step lengths 1-900 s, built-in and hostile control: per vehicle and step "
            "range, ledger (level = initial + gained - expended), monotone totals, strict expenditure on driving/idling, plug limit per charge step, out-of-energy stops; the same pre/post-conditions on "
            "every real call of consume_energy/idle/add_energy and on a direct randomized sweep of those functions. non-trivial = a case with at least one charge step or add_energy call"
        )
        v.assumptions = ["idle rate 0 (denver_rl_toy's toy_car) is exempt from the strict idle clause", "queueing for a plug the vehicle can never use is out of scope (DESIGN 6)"]
        tot, _ = std_summary(v, results, by_id, "c04_add_calls", FLOORS[tier])

    return run_check("C04", tier, seed, cases, summarize)
