"""C10 - fleet membership is enforced on every interaction."""
from hivemon.checks.common import BUILTIN, hostile_stack, shipped_case, trace_case
from hivemon.checks.sysmix import main_with_sys
from hivemon.drive.systematic import systematic_cases

PROFILE = {
    "n_vehicles": (4, 16),
    "n_requests": (40, 200),
    "soc": [0.05, 0.1, 0.3, 0.6, 0.9],
    "colocate": 0.4,
    "spread": 0.012,
    "dts": [30, 60, 61, 120, 300],
    "timeouts": [60, 600],
    "p_human": 0.3,
    "n_stations": (2, 5),
    "n_bases": (1, 4),
    "shared_ids": 0.4,  # a base and its station under one id (ids are per kind), often with different fleets
}


def build_cases(tier, seed):
    n, steps = (80, 200) if tier == "quick" else (800, 450)
    cases = []
    for i in range(n):
        s = seed * 100000 + 10000 + i
        prof = dict(PROFILE)
        prof["fleets"] = [2, 3, 3, 2, 0][i % 5]
        if i % 6 == 5:
            prof["network"] = "grid"
        ctrl = BUILTIN if i % 3 == 0 else hostile_stack(p=[0.2, 0.4][i % 2], builtin=True)
        cases.append(trace_case("C10", i, s, prof, ctrl, steps, ["C10"], opts=({"inject_requests": {"every": 6, "public": i % 10 == 7}} if i % 5 == 2 else {"cosim_ops": {"every": 3, "kinds": ["change_membership"]}} if i % 5 == 3 and prof["fleets"] else {})))
    cases += systematic_cases("C10", tier, seed)
    if tier == "thorough":
        cases.append(shipped_case("C10", "denver_downtown/denver_demo_fleets.yaml", 700, ["C10"], tag="b"))
        cases.append(shipped_case("C10", "denver_downtown/denver_demo_fleets.yaml", 500, ["C10"], controller=hostile_stack(0.25), tag="h"))
    return cases


main = main_with_sys(
    "C10",
    build_cases,
    "c10_restricted_target_checks",
    {
        "quick": {"c10_target_checks": 30000, "c10_restricted_target_checks": 10000, "c10_proposals_Dispatcher": 500, "c10_proposals_ChargingFleetManager": 200, "c10_proposals_restricted_target": 500, "c10_hostile_cross_fleet_instructions": 1000, "sys_transitions": 20000},
        "thorough": {"c10_target_checks": 600000, "c10_restricted_target_checks": 200000, "c10_proposals_Dispatcher": 10000, "c10_proposals_ChargingFleetManager": 4000, "c10_proposals_restricted_target": 10000, "c10_hostile_cross_fleet_instructions": 20000, "sys_transitions": 500000},
    },
    "generated fleet layouts (0, 2, 3 fleets; vehicles in 0, 1, several fleets; stations, bases and requests in fleets or public; private home bases of human drivers) under built-in and hostile "
    "control issuing cross-fleet instructions from every activity; after every step each activity's target must grant the vehicle (own predicate: no membership, or a common fleet) and every proposal of "
    "Dispatcher, ChargingFleetManager and the drivers must name a granting target; the two-fleet worlds of the systematic driver add every instruction variant. non-trivial = a target with membership was checked; distinct = case hash",
    ["a base and its attached station share their fleets in generated inputs (DESIGN 6)", "one human driver per private home base"],
)
