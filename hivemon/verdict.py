"""three-valued verdicts, known-findings matching, evidence and replay files."""
from __future__ import annotations

import hashlib
import json
import os
import sys
import time
from pathlib import Path
from typing import Any, Dict, List, Optional, Tuple

from hivemon.common import EVIDENCE, ROOT

KNOWN = ROOT / "known_findings.json"
REPLAYS = Path(os.environ.get("HIVEMON_REPLAYS", ROOT / "replays"))

HELD, VIOLATED, INCONCLUSIVE = 0, 1, 2

try:
    _FLOORS = json.load(open(Path(__file__).resolve().parent / "checks" / "floors.json"))
except Exception:
    _FLOORS = {}


def load_known() -> List[Dict[str, Any]]:
    if not KNOWN.exists():
        return []
    d = json.load(open(KNOWN))
    return [e for e in d.get("open", [])]


def case_hash(case: Dict[str, Any]) -> str:
    c = {k: v for k, v in case.items() if k not in ("id",)}
    return hashlib.sha256(json.dumps(c, sort_keys=True, default=str).encode()).hexdigest()[:16]


class Verdict:
    def __init__(self, prop: str, tier: str, seed: int):
        self.prop, self.tier, self.seed = prop, tier, seed
        self.t0 = time.time()
        self.violations: List[Tuple[Dict[str, Any], Dict[str, Any]]] = []  # (violation, case)
        self.problems: List[str] = []
        self.floors: List[Tuple[str, float, float]] = []
        self.coverage: Dict[str, Any] = {}
        self.assumptions: List[str] = []
        self.samples: List[Any] = []
        self.evaluations = 0
        self.nontrivial_hashes: set = set()
        self.rule = ""

    # ---- collecting
    def add_results(self, results: List[Dict[str, Any]], cases_by_id: Dict[str, Dict[str, Any]], problems: List[str]):
        self.problems.extend(problems)
        for r in results:
            case = cases_by_id.get(r.get("id"), {})
            for v in r.get("violations", []):
                if v["property"] == "HARNESS":
                    self.problems.append(f"harness exception in case {r.get('id')}: {v['message']} {v['witness'].get('traceback','')[-600:]}")
                elif v["property"] == self.prop:
                    self.violations.append((v, case))

    def violate(self, mechanism: str, message: str, case: Dict[str, Any], **witness):
        self.violations.append(({"property": self.prop, "mechanism": mechanism, "message": message, "step": None, "witness": witness}, case))

    def floor(self, name: str, value: float, minimum: float):
        # calibrated minima (tools/calibrate_floors.py: 40 % of the smallest value seen over a seed sweep on the
        # unchanged tree) replace the first guesses written in the checks
        minimum = _FLOORS.get(self.prop, {}).get(self.tier, {}).get(name, minimum)
        self.floors.append((name, value, minimum))

    def nontrivial(self, case: Dict[str, Any]):
        self.nontrivial_hashes.add(case_hash(case))

    # ---- concluding
    def conclude(self) -> int:
        known = [e for e in load_known() if e.get("property") == self.prop]
        REPLAYS.mkdir(parents=True, exist_ok=True)
        new_viol = 0
        known_hits: Dict[str, int] = {}
        lines: List[str] = []
        seen_mech: Dict[str, int] = {}
        for v, case in self.violations:
            mech = v["mechanism"]
            hit = next((e for e in known if e.get("mechanism") == mech), None)
            if hit is not None:
                known_hits[mech] = known_hits.get(mech, 0) + 1
                continue
            seen_mech[mech] = seen_mech.get(mech, 0) + 1
            if seen_mech[mech] > 3:  # a few replay files per mechanism are enough
                new_viol += 1
                continue
            new_viol += 1
            path = REPLAYS / f"{self.prop}-{self.tier}-{mech.replace('/', '_').replace(':', '_').replace('@', '_')[:60]}-{seen_mech[mech]}.json"
            json.dump({"property": self.prop, "tier": self.tier, "seed": self.seed, "violation": v, "case": case}, open(path, "w"), indent=1, default=str)
            lines.append(f"VIOLATION property={self.prop} replay={path}")
            print(f"  mechanism={mech} step={v.get('step')}: {v['message']}", file=sys.stderr)
        for mech, n in known_hits.items():
            e = next(e for e in known if e.get("mechanism") == mech)
            print(f"KNOWN-FINDING: property={self.prop} {e.get('what', mech)} (seen {n}x)")
        missed = [(n, v, m) for n, v, m in self.floors if v < m]
        status = HELD
        if new_viol:
            status = VIOLATED
        elif self.problems or missed:
            status = INCONCLUSIVE
        self.write_evidence(new_viol + sum(known_hits.values()), status, missed)
        for l in lines:
            print(l)
        if status == INCONCLUSIVE:
            reason = "; ".join([f"floor {n}={v} < {m}" for n, v, m in missed] + [p[:300] for p in self.problems[:3]])
            print(f"INCONCLUSIVE property={self.prop} reason={reason}")
        elif status == HELD:
            print(f"HELD property={self.prop} tier={self.tier} seed={self.seed} evaluations={self.evaluations} nontrivial={len(self.nontrivial_hashes)} wall={time.time()-self.t0:.1f}s")
        sys.stdout.flush()
        return status

    def write_evidence(self, n_viol: int, status: int, missed):
        EVIDENCE.mkdir(parents=True, exist_ok=True)
        cov = dict(self.coverage)
        cov["evaluations"] = int(self.evaluations)
        cov["distinct_nontrivial"] = int(len(self.nontrivial_hashes))
        cov["rule"] = self.rule
        cov["samples"] = self.samples[:6] if self.samples else [{"note": "no sample recorded"}]
        cov["floors"] = [{"name": n, "observed": v, "minimum": m} for n, v, m in self.floors]
        cov["verdict"] = {HELD: "held-on-observed", VIOLATED: "violated", INCONCLUSIVE: "inconclusive"}[status]
        if self.problems:
            cov["problems"] = self.problems[:5]
        ev = {
            "property_id": self.prop,
            "tier": self.tier,
            "seed": int(self.seed),
            "level": "exploration",
            "coverage": cov,
            "assumptions": self.assumptions,
            "wall_s": round(time.time() - self.t0, 2),
            "violations": int(n_viol),
        }
        tmp = EVIDENCE / f".{self.prop}.json.tmp"
        json.dump(ev, open(tmp, "w"), indent=1, default=str)
        os.replace(tmp, EVIDENCE / f"{self.prop}.json")


def sum_counters(results: List[Dict[str, Any]], key: str = "counters") -> Dict[str, int]:
    out: Dict[str, int] = {}
    for r in results:
        for k, v in (r.get(key) or {}).items():
            out[k] = out.get(k, 0) + v
    return out


def union_sets(results: List[Dict[str, Any]]) -> Dict[str, set]:
    out: Dict[str, set] = {}
    for r in results:
        for k, v in (r.get("sets") or {}).items():
            out.setdefault(k, set()).update(v)
    return out
