"""street-graph generators: jittered grids with one-ways / deleted edges / varied speeds, and the shipped graphs."""
from __future__ import annotations

import json
import random
from pathlib import Path
from typing import Dict, Tuple

import h3
import networkx as nx

from hivemon.common import REPO

LAT0, LON0 = 39.75, -104.99
# other places a town can be: across the 180th meridian (Taveuni), far north (Longyearbyen), at latitude 0 / longitude 0,
# southern and eastern hemisphere (Sydney)
PLACES = [(-16.85, 180.0), (78.22, 15.6), (0.0, 0.0), (-33.9, 151.2)]  # a town's centre


def wrap_lon(x: float) -> float:
    return ((x + 180.0) % 360.0) - 180.0
DENVER_JSON = (
    REPO / "nrel/hive/resources/scenarios/denver_downtown/road_network/downtown_denver_network.json"
)
MANHATTAN_DIR = REPO / "nrel/hive/resources/scenarios/manhattan"

SPEED_SETS = {
    "varied": [8, 15, 30, 50, 100, 130],
    "uniform": [40],
    "slow": [5, 8, 12],
    "mixed": [5, 25, 40, 65, 130],
}


def _gc_m(a: Tuple[float, float], b: Tuple[float, float]) -> float:
    return h3.point_dist(a, b, unit="m")


def grid(params: Dict) -> nx.MultiDiGraph:
    """deterministic in params: {"n","seed","speeds","dlat","dlon","oneway","delete","stretch"}"""
    n = int(params.get("n", 5))
    rnd = random.Random(int(params.get("seed", 0)) * 7919 + 13)
    speeds = SPEED_SETS[params.get("speeds", "varied")]
    dlat = float(params.get("dlat", 0.002))
    dlon = float(params.get("dlon", 0.0025))
    jit = float(params.get("jitter", 0.15))
    p_oneway = float(params.get("oneway", 0.15))
    p_delete = float(params.get("delete", 0.08))
    stretch = float(params.get("stretch", 1.3))
    p_missing = float(params.get("missing_speed", 0.0))
    lat0, lon0 = LAT0, LON0
    if params.get("origin"):  # the town's centre: the grid lies on both sides of that meridian and parallel
        lat0, lon0 = params["origin"][0] - (n - 1) * dlat / 2, params["origin"][1] - (n - 1) * dlon / 2
    g = nx.MultiDiGraph()
    for i in range(n):
        for j in range(n):
            g.add_node(
                i * n + j,
                y=lat0 + i * dlat + rnd.uniform(-jit, jit) * dlat,
                x=wrap_lon(lon0 + j * dlon + rnd.uniform(-jit, jit) * dlon),
            )

    def add(u, v):
        a = (g.nodes[u]["y"], g.nodes[u]["x"])
        b = (g.nodes[v]["y"], g.nodes[v]["x"])
        d = _gc_m(a, b)
        attrs = {"length": d * rnd.uniform(1.0, stretch) + 1.0, "speed_kmph": rnd.choice(speeds)}
        if rnd.random() < p_missing:
            del attrs["speed_kmph"]  # the loader fills in network.default_speed_kmph
        g.add_edge(u, v, **attrs)

    pairs = []
    for i in range(n):
        for j in range(n):
            u = i * n + j
            if j + 1 < n:
                pairs.append((u, u + 1))
            if i + 1 < n:
                pairs.append((u, u + n))
    for u, v in pairs:
        add(u, v)
        add(v, u)
    # one-ways and deletions, keeping strong connectivity
    cand = list(pairs)
    rnd.shuffle(cand)
    for u, v in cand:
        r = rnd.random()
        if r < p_delete:
            rm = [(u, v), (v, u)]
        elif r < p_delete + p_oneway:
            rm = [(u, v)] if rnd.random() < 0.5 else [(v, u)]
        else:
            continue
        saved = [(a, b, dict(g[a][b][0])) for a, b in rm if g.has_edge(a, b)]
        for a, b, _ in saved:
            g.remove_edge(a, b)
        if not nx.is_strongly_connected(g):
            for a, b, d in saved:
                g.add_edge(a, b, **d)
    # split-intersection stubs: a twin node a few decimetres from a junction (same location cell), joined to it both ways,
    # that takes over some of the junction's streets - routes then run over links whose two ends share one cell
    p_stub = float(params.get("stubs", 0.0))
    if p_stub > 0:
        nxt = n * n
        for u in list(g.nodes()):
            if rnd.random() >= p_stub:
                continue
            t = nxt
            nxt += 1
            g.add_node(t, y=g.nodes[u]["y"] + 1e-6, x=wrap_lon(g.nodes[u]["x"] + 1e-6))
            sp = rnd.choice(speeds)
            g.add_edge(u, t, length=0.3, speed_kmph=sp)
            g.add_edge(t, u, length=0.3, speed_kmph=sp)
            outs = [(a, b, dict(d)) for a, b, d in g.out_edges(u, data=True) if b != t]
            ins = [(a, b, dict(d)) for a, b, d in g.in_edges(u, data=True) if a != t]
            for a, b, d in outs[: max(1, len(outs) // 2)]:
                g.remove_edge(a, b)
                g.add_edge(t, b, **d)
            for a, b, d in ins[: len(ins) // 2]:
                g.remove_edge(a, b)
                g.add_edge(a, t, **d)
        if not nx.is_strongly_connected(g):
            raise RuntimeError("stub construction broke connectivity")
    # streets digitised twice: a second, identical edge between the same two junctions (same length and speed, so nothing
    # about travel times becomes ambiguous; the link table then has fewer distinct ids than the graph has edges)
    p_par = float(params.get("parallel", 0.0))
    if p_par > 0:
        for a, b, d in [(a, b, dict(d)) for a, b, d in g.edges(data=True)]:
            if rnd.random() < p_par:
                if params.get("parallel_differs"):
                    # a second carriageway / crescent between the same junctions with its own length and speed
                    d = dict(d, length=d["length"] * rnd.uniform(1.0, 2.5), speed_kmph=rnd.choice(speeds))
                g.add_edge(a, b, **d)
    # dead-end spurs: a driveway of 3-10 m off a junction (both directions); at ordinary speeds it takes less than a second
    p_spur = float(params.get("spurs", 0.0))
    if p_spur > 0:
        nxt = max(g.nodes()) + 1
        for u in [x for x in g.nodes() if x < n * n]:
            if rnd.random() >= p_spur:
                continue
            t = nxt
            nxt += 1
            dy = rnd.choice([-1, 1]) * rnd.uniform(2e-5, 6e-5)
            dx = rnd.choice([-1, 1]) * rnd.uniform(2e-5, 6e-5)
            g.add_node(t, y=g.nodes[u]["y"] + dy, x=wrap_lon(g.nodes[u]["x"] + dx), spur=True)
            d = _gc_m((g.nodes[u]["y"], g.nodes[u]["x"]), (g.nodes[t]["y"], g.nodes[t]["x"]))
            sp = rnd.choice(speeds)
            g.add_edge(u, t, length=d, speed_kmph=sp)
            g.add_edge(t, u, length=d, speed_kmph=sp)
    preset = params.get("preset_time", 0.0)
    if preset:
        # network files in which some links state their own travel time (length over speed) and the others leave it to the loader:
        # a random share of the links, or ("fast") the arterials - every link of the two highest speeds - and a few others
        sp = sorted({d["speed_kmph"] for _, _, d in g.edges(data=True) if "speed_kmph" in d})
        for a, b, d in g.edges(data=True):
            if "speed_kmph" not in d:
                continue
            if (preset == "fast" and (d["speed_kmph"] in sp[-2:] or rnd.random() < 0.15)) or (preset != "fast" and rnd.random() < float(preset)):
                d["travel_time"] = d["length"] / 1000.0 / d["speed_kmph"] * 3600.0
    if params.get("latlon_keys"):
        # junction coordinates under "lat"/"lon" instead of "y"/"x" (the loader reads either)
        for _, d in g.nodes(data=True):
            d["lat"], d["lon"] = d.pop("y"), d.pop("x")
    return g


def write_graph(g: nx.MultiDiGraph, path: Path):
    with open(path, "w") as f:
        json.dump(nx.node_link_data(g, edges="edges"), f)


def load_json_graph(path: Path) -> nx.MultiDiGraph:
    d = json.load(open(path))
    key = "links" if "links" in d else "edges"
    return nx.node_link_graph(d, edges=key)


def convert_graph_file(src: Path, dst: Path):
    """shipped graphs were written by an older networkx ("links"); the installed one reads "edges"."""
    d = json.load(open(src))
    if "links" in d and "edges" not in d:
        d["edges"] = d.pop("links")
    with open(dst, "w") as f:
        json.dump(d, f)


def denver() -> nx.MultiDiGraph:
    return load_json_graph(DENVER_JSON)


def manhattan() -> nx.MultiDiGraph:
    return load_json_graph(MANHATTAN_DIR / "road_network" / "manhattan_network.json")


def spur_points(g: nx.MultiDiGraph):
    return [(d.get("y", d.get("lat")), d.get("x", d.get("lon"))) for _, d in g.nodes(data=True) if d.get("spur")]


def node_points(g: nx.MultiDiGraph):
    return [(d.get("y", d.get("lat")), d.get("x", d.get("lon"))) for _, d in g.nodes(data=True)]
