"""seeded scenario generator.

``random_spec(seed, profile)`` returns an explicit, JSON-serialisable description of a complete
hive scenario (every vehicle, station, base, request, tariff row, shift, fleet). ``write_scenario``
turns such a description into a scenario directory in the documented input formats
(docs/source/inputs.md). Because the description is explicit, a replay file carries the whole
case, reference models (C11, C20) read the same numbers the simulator reads, and hand-written
regression cases use the same path.

All randomness comes from ``random.Random(seed)``; no set is ever iterated, so the output does not
depend on the interpreter's hash seed.
"""
from __future__ import annotations

import copy
import json
import random
import shutil
from pathlib import Path
from typing import Any, Dict, List, Optional

import yaml

from hivemon.common import REPO
from hivemon.gen import graph as G

LAT0, LON0 = G.LAT0, G.LON0
SHIPPED_DIR = REPO / "nrel/hive/resources/scenarios"

DEFAULT_CHARGERS = [
    {"id": "LEVEL_1", "energy_type": "electric", "rate": 3.3, "units": "kilowatts"},
    {"id": "LEVEL_2", "energy_type": "electric", "rate": 7.2, "units": "kilowatts"},
    {"id": "DCFC", "energy_type": "electric", "rate": 50, "units": "kilowatts"},
    {"id": "GAS_PUMP", "energy_type": "gasoline", "rate": 0.16, "units": "gal_per_second"},
]

DEFAULT_MECH = {
    "leaf_50": {
        "mechatronics_type": "bev",
        "powercurve_file": "normalized.yaml",
        "powertrain_file": "normalized-electric.yaml",
        "battery_capacity_kwh": 50,
        "nominal_max_charge_kw": 50,
        "charge_taper_cutoff_kw": 10,
        "nominal_watt_hour_per_mile": 225,
        "idle_kwh_per_hour": 0.8,
    },
    "toyota_corolla": {
        "mechatronics_type": "ice",
        "tank_capacity_gallons": 10,
        "idle_gallons_per_hour": 0.2,
        "powertrain_file": "normalized-gasoline.yaml",
        "nominal_miles_per_gallon": 30,
    },
}

GLOBAL_YAML = """output_base_directory: "{out}"
log_run: False
log_states: False
log_events: {events}
log_kepler: False
log_instructions: {instructions}
log_stats: True
log_station_capacities: False
log_time_step_stats: False
log_fleet_time_step_stats: False
log_level: ERROR
verbose: False
lazy_file_reading: {lazy}
"""


def hms(x: int) -> str:
    x %= 86400
    return "%02d:%02d:%02d" % (x // 3600, x % 3600 // 60, x % 60)


def iso(t: int) -> str:
    from datetime import datetime, timezone

    return datetime.fromtimestamp(t, tz=timezone.utc).replace(tzinfo=None).isoformat()


# ------------------------------------------------------------------------------------ writer


ALL_REPORT_TYPES = [
    "instruction", "station_state", "vehicle_state", "driver_state", "add_request_event", "cancel_request_event", "pickup_request_event",
    "dropoff_request_event", "vehicle_charge_event", "vehicle_move_event", "station_load_event", "refuel_search_event", "driver_schedule_event",
]


def write_global_config(d: Path, lazy: bool = False, events: bool = True, instructions: bool = False, log_sim_config=None, stats: bool = True):
    (d / "out").mkdir(exist_ok=True)
    txt = GLOBAL_YAML.format(out=str(d / "out"), lazy=str(bool(lazy)), events=str(bool(events)), instructions=str(bool(instructions)))
    if not stats:
        txt = txt.replace("log_stats: True", "log_stats: False")
    if log_sim_config is not None:
        # the operator logs only some kinds of records (documented key log_sim_config)
        txt += "log_sim_config:\n" + "".join(f"- '{x}'\n" for x in log_sim_config)
    (d / ".hive.yaml").write_text(txt)


def write_scenario(spec: Dict[str, Any], d: Path) -> Path:
    """writes the scenario described by ``spec`` into directory ``d``; returns the scenario yaml path."""
    d = Path(d)
    d.mkdir(parents=True, exist_ok=True)
    if "shipped" in spec:
        return _write_shipped(spec, d)
    sim = spec["sim"]
    glob = spec.get("global", {})
    write_global_config(d, lazy=glob.get("lazy", False), events=glob.get("log_events", True), instructions=glob.get("log_instructions", False), log_sim_config=glob.get("log_sim_config"), stats=glob.get("log_stats", True))
    as_iso = sim.get("time_format", "int") == "iso"

    def tfmt(t: int):
        return iso(t) if as_iso else int(t)

    inputs: Dict[str, Any] = {
        "vehicles_file": "vehicles.csv",
        "requests_file": "requests.csv",
        "bases_file": "bases.csv",
        "stations_file": "stations.csv",
    }
    with open(d / "vehicles.csv", "w") as f:
        f.write("vehicle_id,lat,lon,mechatronics_id,initial_soc,schedule_id,home_base_id\n")
        for v in spec["vehicles"]:
            f.write(
                f"{v['id']},{v['lat']!r},{v['lon']!r},{v['mech']},{v['soc']!r},{v.get('schedule') or ''},{v.get('home_base') or ''}\n"
            )
    with open(d / "bases.csv", "w") as f:
        f.write("base_id,lat,lon,station_id,stall_count\n")
        for b in spec["bases"]:
            f.write(f"{b['id']},{b['lat']!r},{b['lon']!r},{b.get('station') or ''},{b['stalls']}\n")
    with open(d / "stations.csv", "w") as f:
        f.write("station_id,lat,lon,charger_count,charger_id,on_shift_access\n")
        for s in spec["stations"]:
            for p in s["plugs"]:
                f.write(
                    f"{s['id']},{s['lat']!r},{s['lon']!r},{p['count']},{p['charger']},{'true' if p.get('on_shift', True) else 'false'}\n"
                )
    has_fleet_col = any(r.get("fleet") for r in spec["requests"])
    with open(d / "requests.csv", "w") as f:
        f.write("request_id,o_lat,o_lon,d_lat,d_lon,departure_time,passengers" + (",fleet_id" if has_fleet_col else "") + "\n")
        for r in spec["requests"]:
            line = f"{r['id']},{r['o'][0]!r},{r['o'][1]!r},{r['d'][0]!r},{r['d'][1]!r},{tfmt(r['t'])},{r.get('pax', 1)}"
            if has_fleet_col:
                line += f",{r.get('fleet') or ''}"
            f.write(line + "\n")
    prices = spec.get("prices")
    if prices:
        key = "station_id" if prices.get("by", "station") == "station" else "geoid"
        with open(d / "prices.csv", "w") as f:
            f.write(f"time,{key},charger_id,price_kwh\n")
            for t, k, c, p in prices["rows"]:
                f.write(f"{tfmt(t)},{k},{c},{p!r}\n")
        inputs["charging_price_file"] = "prices.csv"
    if spec.get("rate"):
        b, m, mn = spec["rate"]
        (d / "rate.csv").write_text(f"base_price,price_per_mile,minimum_price\n{b!r},{m!r},{mn!r}\n")
        inputs["rate_structure_file"] = "rate.csv"
    if spec.get("schedules"):
        with open(d / "schedules.csv", "w") as f:
            f.write("schedule_id,start_time,end_time\n")
            for s in spec["schedules"]:
                f.write(f"{s['id']},\"{hms(s['start'])}\",\"{hms(s['end'])}\"\n")
        inputs["schedules_file"] = "schedules.csv"
    if spec.get("fleets"):
        fl = {
            fid: {"vehicles": list(m.get("vehicles", [])), "stations": list(m.get("stations", [])), "bases": list(m.get("bases", []))}
            for fid, m in spec["fleets"].items()
        }
        (d / "fleets.yaml").write_text(yaml.safe_dump(fl, sort_keys=True))
        inputs["fleets_file"] = "fleets.yaml"
    if spec.get("mechatronics"):
        (d / "mech.yaml").write_text(yaml.safe_dump(spec["mechatronics"], sort_keys=True))
        inputs["mechatronics_file"] = "mech.yaml"
    for fname, curve in (spec.get("powercurves") or {}).items():
        # charge curves of the scenario's own (found next to the scenario file before the packaged ones are looked at)
        doc = {"name": fname.rsplit(".", 1)[0], "power_type": "electric", "type": "tabular", "step_size_seconds": curve["step_size_seconds"], "power_curve": [{"energy_kwh": e, "power_kw": p} for e, p in curve["points"]]}
        (d / fname).write_text(yaml.safe_dump(doc, sort_keys=True))
    if spec.get("chargers"):
        with open(d / "chargers.csv", "w") as f:
            f.write("charger_id,energy_type,rate,units\n")
            for c in spec["chargers"]:
                f.write(f"{c['id']},{c['energy_type']},{c['rate']!r},{c['units']}\n")
        inputs["chargers_file"] = "chargers.csv"
    net = spec.get("network", {"type": "euclidean"})
    network = {"network_type": "euclidean"}
    if net["type"] == "grid":
        G.write_graph(G.grid(net), d / "net.json")
        inputs["road_network_file"] = "net.json"
        network = {"network_type": "osm_network"}
    elif net["type"] == "denver":
        G.convert_graph_file(G.DENVER_JSON, d / "net.json")
        inputs["road_network_file"] = "net.json"
        network = {"network_type": "osm_network"}
    if "default_speed_kmph" in net:
        network["default_speed_kmph"] = net["default_speed_kmph"]
    simd = {
        "sim_name": spec.get("name", "hivemon"),
        "timestep_duration_seconds": sim["dt"],
        "request_cancel_time_seconds": sim["timeout"],
        "start_time": tfmt(sim["start"]),
        "end_time": tfmt(sim["end"]),
    }
    if "search_res" in sim:
        simd["sim_h3_search_resolution"] = sim["search_res"]
    if "loc_res" in sim:
        simd["sim_h3_resolution"] = sim["loc_res"]
    disp = {"valid_dispatch_states": ["Idle", "Repositioning"]}
    disp.update(spec.get("dispatcher", {}))
    y = {"sim": simd, "network": network, "input": inputs, "dispatcher": disp}
    (d / "scenario.yaml").write_text(yaml.safe_dump(y, sort_keys=False))
    return d / "scenario.yaml"


def _write_shipped(spec: Dict[str, Any], d: Path) -> Path:
    """copy of a shipped scenario directory with the graph file converted and overrides applied."""
    which = spec["shipped"]  # e.g. "denver_downtown/denver_demo.yaml"
    src_dir = SHIPPED_DIR / Path(which).parent
    name = Path(which).name
    dst = d / "shipped"
    if dst.exists():
        shutil.rmtree(dst)
    shutil.copytree(src_dir, dst, ignore=shutil.ignore_patterns("__pycache__", "*.pyc"))
    rn = dst / "road_network"
    if rn.is_dir():
        for f in rn.glob("*.json"):
            G.convert_graph_file(f, f)
    write_global_config(dst, lazy=spec.get("global", {}).get("lazy", False), events=spec.get("global", {}).get("log_events", True))
    y = yaml.safe_load((dst / name).read_text())
    ov = spec.get("overrides", {})
    for sect, vals in ov.items():
        y.setdefault(sect, {}).update(vals)
    (dst / name).write_text(yaml.safe_dump(y, sort_keys=False))
    return dst / name


# ------------------------------------------------------------------------------------ random specs

DEFAULT_PROFILE: Dict[str, Any] = {
    "network": None,  # None = random among euclidean / grid; or "euclidean" | "grid" | "denver"
    "dt": None,  # None = random choice
    "dts": [1, 7, 30, 45, 60, 61, 90, 97, 120, 300],
    "steps": (80, 200),
    "n_vehicles": (2, 12),
    "p_ice": 0.25,
    "p_human": 0.2,
    "p_home_station": 0.6,
    "config_variety": True,
    "soc": [0.02, 0.05, 0.1, 0.15, 0.3, 0.6, 0.9, 1.0],
    "n_stations": (1, 4),
    "plug_counts": [1, 1, 2, 3],
    "n_bases": (1, 3),
    "stalls": [1, 1, 2, 3],
    "fleets": None,  # None = random in {0,2,3}; or an int
    "n_requests": (10, 120),
    "timeouts": [1, 59, 60, 600, 601],
    "prices": None,  # None=random; "none" | "station" | "geoid"
    "lazy": None,
    "custom_mech": 0.3,
    "custom_chargers": 0.3,
    "spread": 0.02,
    "time_format": None,
    "search_type": None,  # None = nearest_shortest_queue (9 of 10) or shortest_time_to_charge
    "idle_time_out": None,
    "colocate": 0.25,
    "euclidean_default_speed": 0.0,  # probability that a straight-line scenario sets network.default_speed_kmph
    "shared_ids": 0.0,  # probability that a base's station carries the base's id
    "depot": 0.0,  # probability (in fleets scenarios) of a depot shared by up to three human drivers
    "detached_base_station": 0.0,  # probability that a base's station is entered at other coordinates than the base
    "starts": [0, 0, 900, 1000, 3600, 9900, 43200, 86399, 99900],  # 900 / 9900 / 99900: epoch times change their number of digits during the run
}


RANGE_KEYS = ("steps", "n_vehicles", "n_stations", "n_bases", "n_requests")


def _price(rnd: random.Random) -> float:
    """a tariff entry; free charging (exactly 0.0) is an ordinary entry"""
    return 0.0 if rnd.random() < 0.15 else round(rnd.uniform(0.0, 1.0), 3)


def _pick(rnd: random.Random, v):
    if isinstance(v, tuple) and len(v) == 2 and all(isinstance(x, int) for x in v):
        return rnd.randint(v[0], v[1])
    if isinstance(v, list):
        return rnd.choice(v)
    return v


class _Geo:
    """position sampler for a network kind."""

    def __init__(self, rnd: random.Random, net: Dict[str, Any], spread: float):
        self.rnd = rnd
        self.spread = spread
        self.pts = None
        self.spurs: List[tuple] = []
        if net["type"] == "grid":
            g = G.grid(net)
            self.pts = G.node_points(g)
            self.spurs = G.spur_points(g)
        elif net["type"] == "denver":
            self.pts = G.node_points(G.denver())
        self.anchors: List[tuple] = []
        self.lat0, self.lon0 = net.get("origin") or (LAT0, LON0)

    def fresh(self):
        r = self.rnd
        if self.spurs and r.random() < 0.5:
            # at the end of a driveway (within a metre or two): the last link of a route to it is a very short one
            la, lo = r.choice(self.spurs)
            return (round(la + r.uniform(-1e-5, 1e-5), 6), round(G.wrap_lon(lo + r.uniform(-1e-5, 1e-5)), 6))
        if self.pts:
            la, lo = r.choice(self.pts)
            return (round(la + r.uniform(-3e-4, 3e-4), 6), round(G.wrap_lon(lo + r.uniform(-3e-4, 3e-4)), 6))
        return (round(self.lat0 + r.uniform(-self.spread, self.spread), 6), round(G.wrap_lon(self.lon0 + r.uniform(-self.spread, self.spread)), 6))

    def point(self, colocate: float = 0.0):
        if self.anchors and self.rnd.random() < colocate:
            return self.rnd.choice(self.anchors)
        p = self.fresh()
        return p

    def anchor(self, p):
        self.anchors.append(p)
        return p


def random_spec(seed: int, profile: Optional[Dict[str, Any]] = None) -> Dict[str, Any]:
    P = dict(DEFAULT_PROFILE)
    if profile:
        P.update(profile)
    for k in RANGE_KEYS:  # (lo, hi) ranges survive a JSON round trip as lists
        if isinstance(P.get(k), (list, tuple)) and len(P[k]) == 2:
            P[k] = (int(P[k][0]), int(P[k][1]))
    rnd = random.Random(seed * 1000003 + 17)
    # --- network
    nt = P["network"] or rnd.choice(["euclidean", "euclidean", "grid"])
    if nt == "grid":
        net = {
            "type": "grid",
            "n": rnd.randint(3, 7),
            "seed": rnd.randint(0, 10**6),
            "speeds": rnd.choice(["varied", "varied", "uniform", "slow", "mixed"]),
            "oneway": rnd.choice([0.0, 0.15, 0.3]),
            "delete": rnd.choice([0.0, 0.08, 0.15]),
            "dlat": rnd.choice([0.0003, 0.002, 0.004, 0.01]),
            "dlon": rnd.choice([0.0004, 0.0025, 0.005, 0.012]),
        }
        if rnd.random() < 0.2:
            net["stubs"] = rnd.choice([0.15, 0.4])  # split-intersection stubs: links whose two ends share one location cell
        if rnd.random() < 0.2:
            net["missing_speed"] = rnd.choice([0.2, 0.5])  # links without a speed get network.default_speed_kmph
            net["default_speed_kmph"] = rnd.choice([10.0, 25.0, 90.0])
        if isinstance(P.get("grid"), dict):
            net.update(P["grid"])
        if P.get("origin"):
            net["origin"] = list(P["origin"])
        if "origin" not in net and random.Random(seed * 31 + 5).random() < P.get("other_places", 0.2):
            # a town somewhere else on the globe (stream of its own: the other draws stay what they were)
            net["origin"] = list(random.Random(seed * 31 + 6).choice(G.PLACES))
        if "latlon_keys" not in net and random.Random(seed * 31 + 7).random() < 0.35:
            net["latlon_keys"] = True  # junction coordinates under "lat"/"lon" instead of "y"/"x"
    elif nt == "denver":
        net = {"type": "denver"}
    else:
        net = {"type": "euclidean"}
        if P.get("origin"):
            net["origin"] = list(P["origin"])
        elif random.Random(seed * 31 + 5).random() < P.get("other_places", 0.2):
            net["origin"] = list(random.Random(seed * 31 + 6).choice(G.PLACES))
        if P.get("euclidean_default_speed") and rnd.random() < P["euclidean_default_speed"]:
            net["default_speed_kmph"] = rnd.choice([25.0, 30.0, 60.0])  # documented key; the straight-line network drives at 40 km/h whatever it says
    geo = _Geo(rnd, net, P["spread"])
    # --- sim
    dt = P["dt"] or rnd.choice(P["dts"])
    start = rnd.choice(P["starts"])
    steps = _pick(rnd, P["steps"])
    end = start + steps * dt - rnd.choice([0, 0, 0, 1, dt // 2])  # spans not a multiple of dt
    if end <= start:
        end = start + steps * dt
    timeout = rnd.choice(P["timeouts"])
    tf = P["time_format"] or rnd.choice(["int", "int", "iso"])
    sim = {"dt": dt, "start": start, "end": end, "timeout": timeout, "time_format": tf, "steps": steps}
    # --- chargers / mechatronics
    chargers = None
    charger_defs = copy.deepcopy(DEFAULT_CHARGERS)
    if rnd.random() < P["custom_chargers"]:
        charger_defs += [
            {"id": "FAST150", "energy_type": "electric", "rate": 150, "units": "kilowatts"},
            {"id": "TRICKLE", "energy_type": "electric", "rate": 1.4, "units": "kilowatts"},
            {"id": "SLOW_PUMP", "energy_type": "gasoline", "rate": 0.01, "units": "gal_per_second"},
        ]
        chargers = charger_defs
    elec = [c["id"] for c in charger_defs if c["energy_type"] == "electric"]
    gas = [c["id"] for c in charger_defs if c["energy_type"] == "gasoline"]
    mech = None
    powercurves = None
    bev_ids, ice_ids = ["leaf_50"], ["toyota_corolla"]
    if rnd.random() < P["custom_mech"]:
        mech = copy.deepcopy(DEFAULT_MECH)
        mech["bev_small"] = {
            "mechatronics_type": "bev",
            "powercurve_file": "normalized.yaml",
            "powertrain_file": "normalized-electric.yaml",
            "battery_capacity_kwh": rnd.choice([8, 20, 35]),
            "nominal_max_charge_kw": rnd.choice([6, 50, 120]),
            "charge_taper_cutoff_kw": rnd.choice([5, 10, 60]),
            "nominal_watt_hour_per_mile": rnd.choice([150, 300, 600]),
            "idle_kwh_per_hour": rnd.choice([0.2, 0.8, 3.0]),
        }
        mech["ice_small"] = {
            "mechatronics_type": "ice",
            "tank_capacity_gallons": rnd.choice([2, 6, 14]),
            "idle_gallons_per_hour": rnd.choice([0.05, 0.2, 0.6]),
            "powertrain_file": "normalized-gasoline.yaml",
            "nominal_miles_per_gallon": rnd.choice([12, 30, 55]),
        }
        bev_ids.append("bev_small")
        ice_ids.append("ice_small")
        if rnd.random() < P.get("custom_powercurve", 0.5):
            # a measured charge curve of the operator's own: tabulated over part of the charge range only (say 5 % - 90 %),
            # ramp - plateau - taper, with its own integration step
            lo, hi = rnd.choice([0.0, 0.05, 0.1]), rnd.choice([1.0, 0.95, 0.9])
            knee = rnd.choice([0.5, 0.7, 0.8])
            pts = [[lo, rnd.choice([0.2, 0.5, 1.0])], [round(lo + 0.1, 3), 1.0], [knee, 1.0], [round((knee + hi) / 2, 3), rnd.choice([0.5, 0.7])], [hi, rnd.choice([0.05, 0.1, 0.3])]]
            powercurves = {"own_curve.yaml": {"step_size_seconds": rnd.choice([15, 30, 45, 60, 90]), "points": pts}}
            mech["bev_small"]["powercurve_file"] = "own_curve.yaml"
    # --- stations, bases
    n_st = _pick(rnd, P["n_stations"])
    stations = []
    for i in range(n_st):
        # now and then two stations share one location
        p = rnd.choice(geo.anchors) if geo.anchors and rnd.random() < 0.12 else geo.anchor(geo.fresh())
        plugs = []
        kinds = rnd.sample(elec, k=min(len(elec), rnd.choice([1, 1, 2, 2, 3])))
        if rnd.random() < 0.6:
            kinds.append(rnd.choice(gas))
        for c in kinds:
            plugs.append({"charger": c, "count": rnd.choice(P["plug_counts"]), "on_shift": rnd.random() < 0.85})
        if not any(pl["on_shift"] for pl in plugs):
            plugs[0]["on_shift"] = True
        stations.append({"id": f"s{i}", "lat": p[0], "lon": p[1], "plugs": plugs})
    n_b = _pick(rnd, P["n_bases"])
    bases = []
    for i in range(n_b):
        # now and then two bases share one location (a depot entered as a charging area and a parking lot; the shipped
        # denver_demo_fleets scenario has such a pair)
        p = (bases[-1]["lat"], bases[-1]["lon"]) if bases and rnd.random() < P.get("colocated_bases", 0.15) else geo.anchor(geo.fresh())
        st = None
        if rnd.random() < 0.7:
            # (ids are per kind: a base and its station may carry the same id)
            st = f"b{i}" if P.get("shared_ids") and rnd.random() < P["shared_ids"] else f"bs{i}"
            plugs = [{"charger": rnd.choice(["LEVEL_2", "LEVEL_2", "LEVEL_1", "DCFC"]), "count": rnd.choice(P["plug_counts"]), "on_shift": False}]
            if rnd.random() < 0.3:
                plugs.append({"charger": rnd.choice(gas), "count": 1, "on_shift": False})
            sp = p
            if P.get("detached_base_station") and rnd.random() < P["detached_base_station"]:
                # the depot's plugs are entered under a neighbouring address (nothing ties the two rows' coordinates together)
                sp = geo.anchor((round(p[0] + rnd.choice([-1, 1]) * rnd.uniform(3e-4, 3e-3), 6), round(G.wrap_lon(p[1] + rnd.choice([-1, 1]) * rnd.uniform(3e-4, 3e-3)), 6)))
            stations.append({"id": st, "lat": sp[0], "lon": sp[1], "plugs": plugs})
        bases.append({"id": f"b{i}", "lat": p[0], "lon": p[1], "station": st, "stalls": rnd.choice(P["stalls"])})
    # --- schedules and vehicles
    nv = _pick(rnd, P["n_vehicles"])
    vehicles = []
    schedules = []
    n_human = 0
    for i in range(nv):
        is_ice = rnd.random() < P["p_ice"]
        m = rnd.choice(ice_ids if is_ice else bev_ids)
        p = geo.point(P["colocate"])
        v = {"id": f"v{i}", "lat": p[0], "lon": p[1], "mech": m, "soc": rnd.choice(P["soc"])}
        if rnd.random() < P["p_human"]:
            # one private home base per human driver (two drivers sharing a home base is out of scope, DESIGN §6)
            hb = {"id": f"hb{i}", "stalls": 1}
            hp = geo.fresh()
            hb["lat"], hb["lon"] = hp
            if rnd.random() < P["p_home_station"]:
                hb["station"] = f"hbs{i}"
                stations.append({"id": f"hbs{i}", "lat": hp[0], "lon": hp[1], "plugs": [{"charger": rnd.choice(gas) if is_ice else "LEVEL_2", "count": 1, "on_shift": False}]})
            else:
                hb["station"] = None
            bases.append(hb)
            a = rnd.choice([0, 3600 * rnd.randint(0, 23), rnd.randint(0, 86399), (start + dt * rnd.randint(0, 60)) % 86400])
            b = rnd.choice([a, 0, rnd.randint(0, 86399), (a + dt * rnd.randint(1, 40)) % 86400, (start + dt * rnd.randint(0, 80)) % 86400])
            sid_ = ["sch{}", "Shift{}", "DAY_{}", "late-Shift {}"][i % 4].format(i)  # ids are free text: case, blanks and dashes included
            schedules.append({"id": sid_, "start": a, "end": b})
            v["schedule"] = sid_
            v["home_base"] = hb["id"]
            n_human += 1
        vehicles.append(v)
    # --- fleets
    nf = P["fleets"] if P["fleets"] is not None else rnd.choice([0, 0, 2, 3])
    fleets = None
    fids: List[str] = []
    if nf:
        fids = [f"f{chr(97 + i)}" for i in range(nf)]
        fleets = {fid: {"vehicles": [], "stations": [], "bases": []} for fid in fids}
        for v in vehicles:
            r = rnd.random()
            k = 0 if r < 0.15 else 1 if r < 0.7 else 2 if r < 0.9 else nf
            for fid in rnd.sample(fids, k=min(k, nf)):
                fleets[fid]["vehicles"].append(v["id"])
        # a base and its attached station share their fleets, or the station stays open to all (DESIGN §6:
        # a station restricted to *other* fleets than its base is the one layout left out)
        for b in bases:
            if b["id"].startswith("hb"):
                continue
            r = rnd.random()
            k = 0 if r < 0.3 else 1 if r < 0.85 else 2
            public_station = rnd.random() < 0.35
            for fid in rnd.sample(fids, k=min(k, nf)):
                fleets[fid]["bases"].append(b["id"])
                if b.get("station") and not public_station:
                    fleets[fid]["stations"].append(b["station"])
        for s in stations:
            if s["id"].startswith("s"):
                r = rnd.random()
                k = 0 if r < 0.3 else 1 if r < 0.85 else 2
                for fid in rnd.sample(fids, k=min(k, nf)):
                    fleets[fid]["stations"].append(s["id"])
    # --- a depot shared by several human drivers of one fleet: fewer plugs than drivers, a stall for each (the base, its
    # station and the drivers are listed under the fleet, so access does not hang on the private home-base ids)
    if fleets and P.get("depot") and rnd.random() < P["depot"]:
        humans = [v for v in vehicles if v.get("home_base")][:3]
        if len(humans) >= 2:
            dp = geo.anchor(geo.fresh())
            stations.append({"id": "depot_s", "lat": dp[0], "lon": dp[1], "plugs": [{"charger": "LEVEL_2", "count": 1, "on_shift": False}] + ([{"charger": "DCFC", "count": 1, "on_shift": False}] if rnd.random() < 0.5 else [])})
            bases.append({"id": "depot", "lat": dp[0], "lon": dp[1], "station": "depot_s", "stalls": len(humans)})
            fid = fids[0]
            fleets[fid]["bases"].append("depot")
            fleets[fid]["stations"].append("depot_s")
            for v in humans:
                v["home_base"] = "depot"
                v["mech"] = "leaf_50"
                if v["id"] not in fleets[fid]["vehicles"]:
                    fleets[fid]["vehicles"].append(v["id"])
                if rnd.random() < 0.6:
                    v["lat"], v["lon"] = dp  # starts the run at the depot
    # --- requests (sorted by time)
    nr = _pick(rnd, P["n_requests"])
    requests = []
    t = start - rnd.choice([0, 0, 10, 700])
    horizon = steps * dt
    mean_gap = max(1, horizon // max(nr, 1))
    for i in range(nr):
        t += rnd.choice([0, 0, 0, 1, dt, max(dt - 1, 0), dt + 1, rnd.randint(0, 2 * mean_gap), rnd.randint(0, 2 * mean_gap)])
        o = geo.point(P["colocate"])
        dd = o if rnd.random() < 0.03 else geo.point(0.1)
        r = {"id": f"r{i}", "o": list(o), "d": list(dd), "t": max(t, 0), "pax": rnd.choice([1, 1, 1, 2, 4])}
        if fids:
            r["fleet"] = rnd.choice(fids) if rnd.random() < 0.93 else None
        elif rnd.random() < 0.02:
            r["fleet"] = "ghost"  # membership without a fleets file: must not be admitted
        requests.append(r)
    requests.sort(key=lambda r: r["t"])
    # --- tariffs
    pk = P["prices"] or rnd.choice(["none", "station", "station", "geoid"])
    prices = None
    if pk == "station":
        rows = []
        tt = start - rnd.choice([0, 5, 100])
        for w in range(rnd.randint(1, 5)):
            tt += rnd.choice([0, 1, dt, dt * 3, dt * 7 + 3, horizon // 3])
            for s in stations:
                if rnd.random() < 0.75:
                    for pl in s["plugs"]:
                        if rnd.random() < 0.8:
                            rows.append([max(tt, 0), s["id"], pl["charger"], _price(rnd)])
            if rnd.random() < 0.3:
                rows.append([max(tt, 0), "no_such_station", "DCFC", 9.0])
            if rnd.random() < 0.3 and stations:
                rows.append([max(tt, 0), rnd.choice(stations)["id"], "NO_SUCH_PLUG", 9.0])
        rows.sort(key=lambda r: r[0])
        prices = {"by": "station", "rows": rows}
    elif pk == "geoid":
        import h3

        rows = []
        tt = start - rnd.choice([0, 5, 100])
        for w in range(rnd.randint(1, 4)):
            tt += rnd.choice([0, 1, dt, dt * 3, horizon // 3])
            for s in stations:
                if rnd.random() < 0.6:
                    res = rnd.choice([5, 6, 7, 7, 8, 9, 10, 12])
                    key = h3.h3_to_parent(h3.geo_to_h3(s["lat"], s["lon"], 15), res)
                    for pl in s["plugs"]:
                        if rnd.random() < 0.8:
                            rows.append([max(tt, 0), key, pl["charger"], _price(rnd)])
        rows.sort(key=lambda r: r[0])
        prices = {"by": "geoid", "rows": rows}
    lazy = P["lazy"] if P["lazy"] is not None else rnd.random() < 0.4
    # the ring search scans every search cell within the radius when a vehicle has no usable station in reach
    # (41 rings at the default 100 km); a small radius keeps such (legitimate) cases affordable
    search_type = P["search_type"] or rnd.choice(["nearest_shortest_queue"] * 9 + ["shortest_time_to_charge"])
    disp: Dict[str, Any] = {"charging_search_type": search_type, "max_search_radius_km": rnd.choice([4.0, 8.0, 12.0])}
    if P.get("idle_time_out") is not None:
        disp["idle_time_out_seconds"] = P["idle_time_out"]
    elif rnd.random() < 0.3:
        disp["idle_time_out_seconds"] = rnd.choice([60, 300, 900])
    # configuration variety (each a documented setting): which activities the dispatcher may take vehicles from,
    # range thresholds, fast-charge limit
    if P.get("config_variety", True):
        if rnd.random() < 0.35:
            extra = rnd.sample(["ChargingBase", "ReserveBase", "ChargingStation", "DispatchBase", "DispatchStation", "ChargeQueueing", "DispatchTrip"], rnd.randint(1, 4))
            disp["valid_dispatch_states"] = ["Idle", "Repositioning"] + extra
        if rnd.random() < 0.3:
            disp["matching_range_km_threshold"] = rnd.choice([1, 5, 40])
            disp["charging_range_km_threshold"] = rnd.choice([2, 10, 40])
            disp["charging_range_km_soft_threshold"] = disp["charging_range_km_threshold"] + rnd.choice([5, 30])
            disp["base_charging_range_km_threshold"] = rnd.choice([10, 100, 300])
        if rnd.random() < 0.3:
            disp["ideal_fastcharge_soc_limit"] = rnd.choice([0.3, 0.6, 0.95])
        if rnd.random() < 0.25:
            sim["search_res"] = rnd.choice([6, 8, 9])
        # sim_h3_resolution other than 15 is not exercised: vehicles, stations and bases are placed by the road network
        # (the straight-line network is always built at resolution 15) while requests use the configured resolution, and the
        # dispatcher's grid distance then raises "cells are too far apart" (observed with 12 and 13; outside the properties)
    if P.get("loc_res"):
        sim["loc_res"] = int(P["loc_res"])
    if isinstance(P.get("dispatcher"), dict):
        disp.update(P["dispatcher"])
    spec = {
        "name": f"gen{seed}",
        "seed": seed,
        "sim": sim,
        "network": net,
        "vehicles": vehicles,
        "stations": stations,
        "bases": bases,
        "requests": requests,
        "prices": prices,
        # (the last draw of the stream) fares: defaults, dollars, per-mile only, a currency with large numbers (won)
        "rate": rnd.choice([None, [2.2, 1.6, 5.0], [0.0, 3.0, 1.0], [4800.0, 1600.0, 4800.0]]),
        "schedules": schedules or None,
        "fleets": fleets,
        "mechatronics": mech,
        "powercurves": powercurves,
        "chargers": chargers,
        "dispatcher": disp,
        "global": {"lazy": lazy},
    }
    return spec


def spec_summary(spec: Dict[str, Any]) -> Dict[str, Any]:
    """short description for evidence samples."""
    if "shipped" in spec:
        return {"shipped": spec["shipped"], "overrides": spec.get("overrides", {})}
    return {
        "seed": spec.get("seed"),
        "network": spec["network"],
        "dt": spec["sim"]["dt"],
        "start": spec["sim"]["start"],
        "timeout": spec["sim"]["timeout"],
        "vehicles": len(spec["vehicles"]),
        "human": sum(1 for v in spec["vehicles"] if v.get("schedule")),
        "stations": len(spec["stations"]),
        "bases": len(spec["bases"]),
        "requests": len(spec["requests"]),
        "fleets": sorted(spec["fleets"]) if spec.get("fleets") else [],
        "prices": (spec["prices"] or {}).get("by"),
        "lazy": spec.get("global", {}).get("lazy"),
    }
