"""instruction controllers used by the workloads.

* ``Hostile``   - per (seed, sim_time, vehicle id) deterministic choice among all ten instruction types with
                  valid / missing / remote / wrong-fleet / wrong-plug / full targets.  Its choices do not
                  depend on call order or on ``hash()``, so stepping the same state twice gives the same
                  instructions (C16) and replays reproduce.
* ``Scripted``  - {sim_time: [instruction, ...]} for targeted histories.
* ``BenignQueue`` - only membership- and plug-valid station arrivals, departures and abandonments (C18).
* ``Recorder``  - delegating wrapper that logs what a generator proposed (C09/C10/C12/C20).
"""
from __future__ import annotations

import hashlib
import random
from typing import Any, Dict, List, Optional, Sequence, Tuple

from nrel.hive.dispatcher.instruction.instructions import (
    ChargeBaseInstruction,
    ChargeStationInstruction,
    DispatchBaseInstruction,
    DispatchStationInstruction,
    DispatchTripInstruction,
    IdleInstruction,
    OutOfServiceInstruction,
    RepositionInstruction,
    ReserveBaseInstruction,
)
from nrel.hive.dispatcher.instruction_generator.instruction_generator import InstructionGenerator

INSTR = {
    "Idle": IdleInstruction,
    "DispatchTrip": DispatchTripInstruction,
    "DispatchStation": DispatchStationInstruction,
    "ChargeStation": ChargeStationInstruction,
    "ChargeBase": ChargeBaseInstruction,
    "DispatchBase": DispatchBaseInstruction,
    "Reposition": RepositionInstruction,
    "ReserveBase": ReserveBaseInstruction,
    "OutOfService": OutOfServiceInstruction,
}
INSTR_NAME = {v: k for k, v in INSTR.items()}

# activity an accepted instruction must produce (DispatchStation on the spot may go straight to charging/queueing)
EXPECTED_ACTIVITY = {
    "Idle": ("Idle",),
    "DispatchTrip": ("DispatchTrip",),
    "DispatchStation": ("DispatchStation",),
    "ChargeStation": ("ChargingStation",),
    "ChargeBase": ("ChargingBase",),
    "DispatchBase": ("DispatchBase",),
    "Reposition": ("Repositioning",),
    "ReserveBase": ("ReserveBase",),
    "OutOfService": ("OutOfService",),
}


def encode(i) -> List[Any]:
    import dataclasses

    return [INSTR_NAME[type(i)]] + [getattr(i, f.name) for f in dataclasses.fields(i)]


def decode(e: Sequence[Any]):
    return INSTR[e[0]](*e[1:])


def _rng(*parts) -> random.Random:
    h = hashlib.sha256("|".join(str(p) for p in parts).encode()).digest()
    return random.Random(int.from_bytes(h[:8], "big"))


class Hostile(InstructionGenerator):
    def __init__(self, seed: int, p: float = 0.25, p_oos: float = 0.03, tag: str = "", kinds: Optional[Sequence[str]] = None, per_vehicle: int = 1):
        self.seed = seed
        self.p = p
        self.p_oos = p_oos
        self.tag = tag
        self.kinds = list(kinds) if kinds else ["Idle", "DispatchTrip", "DispatchStation", "ChargeStation", "ChargeBase", "DispatchBase", "Reposition", "ReserveBase", "OutOfService"]
        self.per_vehicle = per_vehicle

    @property
    def name(self) -> str:
        return "Hostile" + self.tag

    def generate_instructions(self, sim, env):
        out = []
        vids = sim.get_vehicle_ids()
        sids = list(sim.get_station_ids())
        bids = list(sim.get_base_ids())
        rids = list(sim.get_request_ids())
        chargers = sorted(env.chargers.keys())
        t = int(sim.sim_time)
        for vid in vids:
            for rep in range(self.per_vehicle):
                r = _rng(self.seed, self.tag, t, vid, rep)
                if r.random() >= self.p:
                    continue
                v = sim.vehicles[vid]
                here_s = sorted(sim.s_locations.get(v.geoid, ()))
                here_b = sorted(set(sim.b_locations.get(v.geoid, ())) | {b.id for sid in sim.s_locations.get(v.geoid, ()) for b in sim.bases.values() if b.station_id == sid})
                here_r = sorted(sim.r_locations.get(v.geoid, ()))

                def target(pool, here):
                    x = r.random()
                    if here and x < 0.45:
                        return r.choice(here)
                    if x < 0.93 and pool:
                        return r.choice(pool)
                    return "nope"

                def plug(sid):
                    x = r.random()
                    st = sim.stations.get(sid)
                    if st is not None and x < 0.6:
                        return r.choice(sorted(st.state.keys()))
                    if x < 0.95:
                        return r.choice(chargers)
                    return "nope"

                k = r.choice(self.kinds)
                if k == "OutOfService" and r.random() >= self.p_oos / max(self.p, 1e-9):
                    k = r.choice([x for x in self.kinds if x != "OutOfService"] or ["Idle"])
                if k == "Idle":
                    out.append(IdleInstruction(vid))
                elif k == "DispatchTrip":
                    out.append(DispatchTripInstruction(vid, target(rids, here_r)))
                elif k == "DispatchStation":
                    sid = target(sids, here_s)
                    out.append(DispatchStationInstruction(vid, sid, plug(sid)))
                elif k == "ChargeStation":
                    sid = target(sids, here_s)
                    out.append(ChargeStationInstruction(vid, sid, plug(sid)))
                elif k == "ChargeBase":
                    bid = target(bids, here_b)
                    b = sim.bases.get(bid)
                    out.append(ChargeBaseInstruction(vid, bid, plug(b.station_id if b is not None and b.station_id else None)))
                elif k == "DispatchBase":
                    out.append(DispatchBaseInstruction(vid, target(bids, here_b)))
                elif k == "ReserveBase":
                    out.append(ReserveBaseInstruction(vid, target(bids, here_b)))
                elif k == "Reposition":
                    other = sim.vehicles[r.choice(vids)]
                    pool = [other.position.link_id] + [sim.stations[s].position.link_id for s in sids[:3]]
                    out.append(RepositionInstruction(vid, r.choice(pool)))
                elif k == "OutOfService":
                    out.append(OutOfServiceInstruction(vid))
        return self, tuple(out)


class Scripted(InstructionGenerator):
    """script: {str(sim_time): [encoded instruction, ...]}"""

    def __init__(self, script: Dict[str, List[List[Any]]], tag: str = ""):
        self.script = {int(k): [decode(e) for e in v] for k, v in script.items()}
        self.tag = tag

    @property
    def name(self) -> str:
        return "Scripted" + self.tag

    def generate_instructions(self, sim, env):
        return self, tuple(self.script.get(int(sim.sim_time), ()))


class Pending(InstructionGenerator):
    """emits whatever the driver put into ``pending`` before the step (systematic driver)."""

    def __init__(self):
        self.pending: List[Any] = []

    @property
    def name(self) -> str:
        return "Pending"

    def generate_instructions(self, sim, env):
        out = tuple(self.pending)
        self.pending = []
        return self, out


class BenignQueue(InstructionGenerator):
    """C18 workload: departures of charging vehicles and abandonment of the queue, nothing invalid."""

    def __init__(self, seed: int, p_leave: float = 0.05, p_abandon: float = 0.02, p_resend: float = 0.0, p_topup: float = 0.0, p_send: float = 0.0, p_switch: float = 0.0):
        self.seed, self.p_leave, self.p_abandon, self.p_resend, self.p_topup, self.p_send, self.p_switch = seed, p_leave, p_abandon, p_resend, p_topup, p_send, p_switch

    @property
    def name(self) -> str:
        return "BenignQueue"

    def generate_instructions(self, sim, env):
        out = []
        t = int(sim.sim_time)
        for v in sim.get_vehicles():
            x = _rng(self.seed, "bq", t, v.id).random()
            n = type(v.vehicle_state).__name__
            if n == "ChargingStation" and x < self.p_leave:
                out.append(IdleInstruction(v.id))
            elif n == "ChargeQueueing" and x < self.p_abandon:
                out.append(IdleInstruction(v.id))
            elif n == "ChargeQueueing" and self.p_switch and x < self.p_abandon + self.p_switch:
                # "try the other kind of plug there": the vehicle gives up its place and goes to the station's other usable plug type
                st = sim.stations.get(v.vehicle_state.station_id)
                mech = env.mechatronics.get(v.mechatronics_id)
                other = [c for c in sorted(st.state) if c != v.vehicle_state.charger_id and mech is not None and mech.valid_charger(st.state[c].charger)] if st is not None else []
                if other:
                    out.append(DispatchStationInstruction(v.id, st.id, other[0]))
            elif n == "ChargeQueueing" and x < self.p_abandon + self.p_resend:
                # a stateless controller repeating "go and charge there" to a vehicle that is already waiting there
                # (the built-in off-shift human driver logic does the same every step)
                out.append(DispatchStationInstruction(v.id, v.vehicle_state.station_id, v.vehicle_state.charger_id))
            elif n == "Idle" and self.p_send and x < self.p_send and not (env.mechatronics.get(v.mechatronics_id) and env.mechatronics[v.mechatronics_id].is_full(v)):
                # an operator who sends idle vehicles to a depot plug himself, whatever the plug's on-shift flag says (the
                # flag only steers the built-in station search)
                mech = env.mechatronics.get(v.mechatronics_id)
                cands = [
                    (st.id, c)
                    for st in sim.get_stations()
                    if st.membership.grant_access_to_membership(v.membership)
                    for c in sorted(st.state)
                    if mech is not None and mech.valid_charger(st.state[c].charger) and c not in st.on_shift_access_chargers
                ]
                if cands:
                    out.append(DispatchStationInstruction(v.id, cands[0][0], cands[0][1]))
            elif n == "Idle" and x < self.p_topup:
                # a depot rule "top up whenever you stand around", whatever the state of charge: full vehicles join queues too
                mech = env.mechatronics.get(v.mechatronics_id)
                if mech is not None and mech.is_full(v):
                    # prefer a plug type that is busy (that is where the queue is), else the first usable one
                    cands = [
                        (0 if not st.has_available_charger(c) else 1, st.id, c)
                        for st in sim.get_stations()
                        if st.membership.grant_access_to_membership(v.membership)
                        for c in sorted(st.state)
                        if c in st.on_shift_access_chargers and mech.valid_charger(st.state[c].charger)
                    ]
                    if cands:
                        _, sid, cid = min(cands)
                        out.append(DispatchStationInstruction(v.id, sid, cid))
        return self, tuple(out)


class Interrupt(InstructionGenerator):
    """every step, with probability p, one instruction for each vehicle that is in one of the given activities (a client
    that keeps telling busy vehicles to do something else; examples/cosim_custom_dispatcher.py idles arbitrary vehicles)."""

    def __init__(self, seed: int, states: Sequence[str] = ("ServicingTrip",), p: float = 1.0, kinds: Sequence[str] = ("Idle",)):
        self.seed, self.states, self.p, self.kinds = seed, tuple(states), p, tuple(kinds)

    @property
    def name(self) -> str:
        return "Interrupt"

    def generate_instructions(self, sim, env):
        out = []
        t = int(sim.sim_time)
        sids = list(sim.get_station_ids())
        bids = list(sim.get_base_ids())
        for v in sim.get_vehicles():
            if type(v.vehicle_state).__name__ not in self.states:
                continue
            r = _rng(self.seed, "int", t, v.id)
            if r.random() >= self.p:
                continue
            k = r.choice(self.kinds)
            if k == "Idle":
                out.append(IdleInstruction(v.id))
            elif k == "DispatchStation" and sids:
                sid = r.choice(sids)
                out.append(DispatchStationInstruction(v.id, sid, r.choice(sorted(sim.stations[sid].state.keys()))))
            elif k == "DispatchBase" and bids:
                out.append(DispatchBaseInstruction(v.id, r.choice(bids)))
            elif k == "Reposition":
                out.append(RepositionInstruction(v.id, v.position.link_id))
        return self, tuple(out)


class RandomDraw(InstructionGenerator):
    """draws from the process-wide ``random`` module, as examples/cosim_custom_dispatcher.py does (random.choices /
    random.choice): every step it repositions k vehicles picked with random.sample. Loading a scenario seeds that module, so
    the draws of a freshly loaded simulation are a function of the step sequence alone."""

    def __init__(self, k: int = 2):
        self.k = k

    @property
    def name(self) -> str:
        return "RandomDraw"

    def generate_instructions(self, sim, env):
        vids = list(sim.get_vehicle_ids())
        out = []
        for vid in random.sample(vids, min(self.k, len(vids))):
            other = sim.vehicles[random.choice(vids)]
            out.append(RepositionInstruction(vid, other.position.link_id) if random.random() < 0.7 else IdleInstruction(vid))
        return self, tuple(out)


class SeatAware(InstructionGenerator):
    """a user-written dispatcher built on hive's own assignment helper (assignment_ops.find_assignment): idle vehicles are paired
    with waiting requests by grid distance, and a pairing is ruled out with an infinite cost (which find_assignment documents)
    when the party is too large for the vehicle - even-numbered vehicles seat two. Stateless: a pure function of the state."""

    @property
    def name(self) -> str:
        return "SeatAware"

    def generate_instructions(self, sim, env):
        import h3
        from nrel.hive.dispatcher.instruction.instructions import DispatchTripInstruction
        from nrel.hive.dispatcher.instruction_generator.assignment_ops import find_assignment

        vs = tuple(v for v in sim.get_vehicles() if type(v.vehicle_state).__name__ in ("Idle", "Repositioning"))
        rs = tuple(r for r in sim.get_requests() if r.dispatched_vehicle is None and r.membership.grant_access_to_membership(r.membership))
        rs = tuple(sorted(rs, key=lambda r: r.id))[:12]
        out = []
        if vs and rs:
            def seats(v):
                return 2 if sum(map(ord, v.id)) % 2 == 0 else 4

            def cost(v, r):
                if len(r.passengers) > seats(v) or not r.membership.grant_access_to_membership(v.membership):
                    return float("inf")
                try:
                    return float(h3.h3_distance(v.geoid, r.geoid))
                except Exception:
                    return float("inf")

            if all(cost(v, r) == float("inf") for v in vs for r in rs):
                return self, ()  # (a table without a single finite cost is not something the helper accepts)
            sol = find_assignment(vs, rs, cost)
            by_id = {r.id: r for r in rs}
            v_by = {v.id: v for v in vs}
            for vid, rid in sol.solution:
                if cost(v_by[vid], by_id[rid]) != float("inf"):
                    out.append(DispatchTripInstruction(vid, rid))
        return self, tuple(out)


class Resend(InstructionGenerator):
    """a client that re-plans vehicles under way: with probability p it repeats the current dispatch of a vehicle that is
    travelling to a request (same vehicle, same request). It never creates a pairing of its own."""

    def __init__(self, seed: int, p: float = 0.3):
        self.seed, self.p = seed, p

    @property
    def name(self) -> str:
        return "Resend"

    def generate_instructions(self, sim, env):
        out = []
        t = int(sim.sim_time)
        for v in sim.get_vehicles():
            if type(v.vehicle_state).__name__ == "DispatchTrip" and len(v.vehicle_state.route) > 0 and _rng(self.seed, "rs", t, v.id).random() < self.p:
                out.append(DispatchTripInstruction(v.id, v.vehicle_state.request_id))
        return self, tuple(out)


class Stateful(InstructionGenerator):
    """a generator in hive's immutable style whose behaviour depends on state it hands on by returning an updated copy
    of itself (as examples/cosim_custom_dispatcher.py does): every k-th call it repositions one vehicle. If a stale copy
    is used for a step, the count does not advance and the run diverges from a step-by-step run."""

    def __init__(self, k: int = 3, n: int = 0):
        self.k, self.n = k, n

    @property
    def name(self) -> str:
        return "Stateful"

    def generate_instructions(self, sim, env):
        out = []
        vids = sim.get_vehicle_ids()
        if vids and self.n % self.k == self.k - 1:
            vid = vids[(self.n // self.k) % len(vids)]
            other = sim.vehicles[vids[(self.n // self.k + 1) % len(vids)]]
            out.append(RepositionInstruction(vid, other.position.link_id))
        return Stateful(self.k, self.n + 1), tuple(out)


class Recorder(InstructionGenerator):
    """delegating wrapper with the inner generator's name; appends (name, sim_time, instructions) to ``log``."""

    def __init__(self, inner: InstructionGenerator, log: List):
        self.inner = inner
        self.log = log

    @property
    def name(self) -> str:
        return self.inner.name

    def generate_instructions(self, sim, env):
        g, ins = self.inner.generate_instructions(sim, env)
        self.log.append((self.name, int(sim.sim_time), tuple(ins), sim))
        return record(g, self.log), ins


_RECORDER_CLASSES: Dict[str, type] = {}


def record(inner: InstructionGenerator, log: List) -> Recorder:
    """a Recorder whose class carries the wrapped generator's class name: hive looks a generator that is put back into a
    payload up by its class name (StepSimulation.update_instruction_generator)"""
    n = type(inner).__name__
    if n not in _RECORDER_CLASSES:
        _RECORDER_CLASSES[n] = type(n, (Recorder,), {})
    return _RECORDER_CLASSES[n](inner, log)


def build_generators(ctrl: Dict[str, Any], env, seed: int):
    """ctrl: {"stack": ["Dispatcher","ChargingFleetManager",{"hostile":{...}},{"scripted":{...}}, ...]}"""
    from nrel.hive.dispatcher.instruction_generator.charging_fleet_manager import ChargingFleetManager
    from nrel.hive.dispatcher.instruction_generator.dispatcher import Dispatcher

    out = []
    n_h = 0
    for item in ctrl.get("stack", ["Dispatcher", "ChargingFleetManager"]):
        if item == "Dispatcher":
            out.append(Dispatcher(env.config.dispatcher))
        elif item == "ChargingFleetManager":
            out.append(ChargingFleetManager(env.config.dispatcher))
        elif isinstance(item, dict) and "hostile" in item:
            kw = dict(item["hostile"])
            kw.setdefault("seed", seed)
            kw.setdefault("tag", str(n_h) if n_h else "")
            n_h += 1
            out.append(Hostile(**kw))
        elif isinstance(item, dict) and "scripted" in item:
            out.append(Scripted(item["scripted"], tag=item.get("tag", "")))
        elif isinstance(item, dict) and "benign_queue" in item:
            kw = dict(item["benign_queue"])
            kw.setdefault("seed", seed)
            out.append(BenignQueue(**kw))
        elif isinstance(item, dict) and "interrupt" in item:
            kw = dict(item["interrupt"])
            kw.setdefault("seed", seed)
            out.append(Interrupt(**kw))
        elif isinstance(item, dict) and "random_draw" in item:
            out.append(RandomDraw(**item["random_draw"]))
        elif isinstance(item, dict) and "resend" in item:
            kw = dict(item["resend"])
            kw.setdefault("seed", seed)
            out.append(Resend(**kw))
        elif isinstance(item, dict) and "stateful" in item:
            out.append(Stateful(**item["stateful"]))
        elif item == "SeatAware":
            out.append(SeatAware())
        elif item == "Pending":
            out.append(Pending())
        else:
            raise ValueError(f"unknown generator {item!r}")
    return tuple(out)
