"""CLI: python -m hivemon <ID> [--tier quick|thorough] [--replay file]"""
from __future__ import annotations

import argparse
import importlib
import json
import os
import sys

from hivemon.common import seed_from_env


def main():
    ap = argparse.ArgumentParser()
    ap.add_argument("prop")
    ap.add_argument("--tier", default=os.environ.get("VERIF_TIER", "quick"), choices=["quick", "thorough"])
    ap.add_argument("--replay", default=None)
    a = ap.parse_args()
    prop = a.prop.upper()
    mod = importlib.import_module(f"hivemon.checks.{prop.lower()}")
    if a.replay:
        from hivemon.replay import replay

        sys.exit(replay(a.replay))
    sys.exit(mod.main(a.tier, seed_from_env()))


if __name__ == "__main__":
    main()
