"""canonical deep fingerprints of hive states, entities and reports.

The walk is hash-order independent: Maps and frozensets are sorted by the repr of their canonical
keys. Nothing is dropped except what the caller asks for:

* ``ids=False`` replaces UUIDs (activity instance ids / charge session ids - per-run random tags)
  by a constant;
* ``skip`` names NamedTuple / dataclass fields to leave out (``road_network`` is always left out:
  it is a mutable service object, not simulation data).
"""
from __future__ import annotations

import dataclasses
import enum
import hashlib
import uuid
from typing import Any, Iterable, Tuple

import immutables

ALWAYS_SKIP = frozenset({"road_network"})


def canon(x: Any, ids: bool = True, skip: frozenset = frozenset()) -> Any:
    if isinstance(x, uuid.UUID):
        return str(x) if ids else "U"
    if isinstance(x, immutables.Map):
        return ("M",) + tuple(
            sorted(((repr(canon(k, ids, skip)), canon(v, ids, skip)) for k, v in x.items()), key=lambda kv: kv[0])
        )
    if isinstance(x, (frozenset, set)):
        return ("F",) + tuple(sorted(repr(canon(i, ids, skip)) for i in x))
    if dataclasses.is_dataclass(x) and not isinstance(x, type):
        return (type(x).__name__,) + tuple(
            (f.name, canon(getattr(x, f.name), ids, skip))
            for f in dataclasses.fields(x)
            if f.name not in skip and f.name not in ALWAYS_SKIP
        )
    if isinstance(x, tuple) and hasattr(x, "_fields"):
        return (type(x).__name__,) + tuple(
            (f, canon(getattr(x, f), ids, skip)) for f in x._fields if f not in skip and f not in ALWAYS_SKIP
        )
    if isinstance(x, (tuple, list)):
        return (type(x).__name__[0],) + tuple(canon(i, ids, skip) for i in x)
    if isinstance(x, dict):
        return ("D",) + tuple(
            sorted(((repr(canon(k, ids, skip)), canon(v, ids, skip)) for k, v in x.items()), key=lambda kv: kv[0])
        )
    if isinstance(x, enum.Enum):
        return "E:" + x.name
    if isinstance(x, bool) or x is None:
        return x
    if isinstance(x, int):
        return int(x)
    if isinstance(x, float):
        return repr(x)
    if isinstance(x, str):
        return x
    # numpy scalars and anything else scalar-like
    try:
        import numpy as np

        if isinstance(x, np.generic):
            return repr(x.item())
        if isinstance(x, np.ndarray):
            return ("nd", x.shape, x.tobytes().hex())
    except Exception:  # pragma: no cover
        pass
    if callable(x):
        return "callable:" + getattr(x, "__qualname__", type(x).__name__)
    return "obj:" + type(x).__name__


def digest(c: Any) -> str:
    return hashlib.sha256(repr(c).encode()).hexdigest()[:20]


def fp(x: Any, ids: bool = True, skip: Iterable[str] = ()) -> str:
    return digest(canon(x, ids, frozenset(skip)))


def fp_state(s, ids: bool = False, skip: Iterable[str] = ()) -> str:
    """fingerprint of a SimulationState (road network excluded)."""
    return fp(s, ids=ids, skip=skip)


ENTITY_MAPS = ("vehicles", "requests", "stations", "bases")


def entity_fps(s, ids: bool = False) -> dict:
    """{(kind, id): fingerprint} - to localise the first difference between two states."""
    out = {}
    for kind in ENTITY_MAPS:
        for k, v in getattr(s, kind).items():
            out[(kind, k)] = fp(v, ids=ids)
    for f in s._fields:
        if f in ENTITY_MAPS or f in ALWAYS_SKIP:
            continue
        out[("field", f)] = fp(getattr(s, f), ids=ids)
    return out


def diff_states(a, b, ids: bool = False, limit: int = 4) -> list:
    fa, fb = entity_fps(a, ids), entity_fps(b, ids)
    keys = sorted(set(fa) | set(fb), key=repr)
    out = []
    for k in keys:
        if fa.get(k) != fb.get(k):
            kind, ident = k
            va = getattr(a, kind).get(ident) if kind in ENTITY_MAPS else getattr(a, ident, None)
            vb = getattr(b, kind).get(ident) if kind in ENTITY_MAPS else getattr(b, ident, None)
            out.append({"what": list(k), "a": short(va), "b": short(vb)})
            if len(out) >= limit:
                break
    return out


def short(x: Any, n: int = 600) -> str:
    r = repr(x)
    return r if len(r) <= n else r[:n] + "..."


# ----------------------------------------------------------------------------- reports


def _canon_report_value(k: str, v: Any) -> Any:
    from nrel.hive.model.membership import Membership

    if k == "session_id":
        return None  # per-run random tag
    if isinstance(v, Membership):
        return sorted(v.memberships)
    if k == "vehicle_memberships":
        if isinstance(v, (list, tuple, set, frozenset)):
            return sorted(v)
        return v
    if k == "fleet_id" and isinstance(v, str):
        return sorted(v.split(",")) if v else []
    if isinstance(v, float):
        return repr(v)
    if isinstance(v, uuid.UUID):
        return "U"
    if isinstance(v, (int, bool)) or v is None:
        return str(v)
    return str(v)


def canon_report(r) -> Tuple:
    return (
        r.report_type.name,
        tuple(sorted((str(k), repr(_canon_report_value(str(k), v))) for k, v in r.report.items())),
    )


def canon_reports(reports) -> Tuple:
    """multiset of one step's reports (order within a step is free)."""
    return tuple(sorted(canon_report(r) for r in reports))


def fp_reports(reports) -> str:
    return digest(canon_reports(reports))
