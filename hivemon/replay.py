"""re-run one recorded case with its monitor attached and print the witness."""
from __future__ import annotations

import json
import sys


def replay(path: str) -> int:
    d = json.load(open(path))
    case = d["case"]
    prop = d.get("property")
    if "differential" in case:
        # C01: the two executions that differed, each in its own interpreter process under its own hash seed
        from hivemon.checks.c01 import first_difference
        from hivemon.drive import pool

        a, b = case["differential"]
        print(f"replaying scenario {a.get('scenario')} under PYTHONHASHSEED {a.get('hashseed')} and {b.get('hashseed')}", file=sys.stderr)
        results, problems = pool.run_cases([dict(a), dict(b)], nproc=2)
        if problems or len(results) != 2:
            print("INCONCLUSIVE replay:", problems[:2])
            return 2
        ra = next(r for r in results if r["id"] == a["id"])
        rb = next(r for r in results if r["id"] == b["id"])
        w = first_difference(ra, rb)
        if w is None:
            print("no difference reproduced")
            return 0
        print(json.dumps(w, indent=1, default=str))
        print(f"VIOLATION property={prop} replay={path}")
        return 1
    from hivemon.drive import engines

    print(f"replaying {case.get('id')} (engine {case.get('engine')}) for property {prop}", file=sys.stderr)
    res = engines.get(case["engine"])(case)
    vs = [v for v in res.get("violations", []) if v["property"] == prop]
    for v in vs:
        print(json.dumps(v, indent=1, default=str))
    if vs:
        print(f"VIOLATION property={prop} replay={path}")
        return 1
    print("no violation reproduced")
    return 0
