"""re-run one recorded case in-process with its monitor attached and print the witness."""
from __future__ import annotations

import json
import sys


def replay(path: str) -> int:
    d = json.load(open(path))
    case = d["case"]
    from hivemon.drive import engines

    print(f"replaying {case.get('id')} (engine {case.get('engine')}) for property {d.get('property')}", file=sys.stderr)
    res = engines.get(case["engine"])(case)
    vs = [v for v in res.get("violations", []) if v["property"] == d.get("property")]
    for v in vs:
        print(json.dumps(v, indent=1, default=str))
    if vs:
        print(f"VIOLATION property={d.get('property')} replay={path}")
        return 1
    print("no violation reproduced")
    return 0
