import json, sys, logging
from hivemon.drive import tracer
import hivemon.monitors.movement as M
d=json.load(open(sys.argv[1])); case=d['case']
orig=M.C06.on_step
done=[False]
def dbg(self, ctx):
    n0=len(ctx.violations)
    orig(self, ctx)
    for v in ctx.violations[n0:]:
        if v['mechanism'].startswith('stays') and not done[0]:
            done[0]=True
            vid=v['witness']['vehicle']; a=ctx.s.vehicles[vid]; vs=a.vehicle_state
            print('driver', a.driver_state)
            print('update ->', vs.update(ctx.s, ctx.env))
            print('prev', ctx.prev.vehicles[vid].vehicle_state, 'applied', ctx.s.applied_instructions.get(vid))
            print([ (e['driver'], e['instruction']) for e in ctx.H.get('driver_instruction',[]) if e['vid']==vid])
M.C06.on_step=dbg
case['monitors']=['C06','C09']
r=tracer.run_trace(case)
