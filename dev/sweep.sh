#!/bin/bash
# sweep quick tier over seeds; prints exit codes and floor ratios (min observed/minimum)
tier=${1:-quick}; shift
seeds=${SEEDS:-"0 1 2 3 4 5"}
props=${@:-C01 C02 C03 C04 C05 C06 C07 C08 C09 C10 C11 C12 C13 C14 C15 C16 C17 C18 C19 C20}
export HIVEMON_EVIDENCE=/tmp/hm_sweep/evidence HIVEMON_REPLAYS=/tmp/hm_sweep/replays
mkdir -p $HIVEMON_EVIDENCE
for p in $props; do for s in $seeds; do
  out=$(VERIF_SEED=$s ./check $p --tier $tier 2>/tmp/hm_sweep/err.txt); ec=$?
  python3 - "$p" "$s" "$ec" <<'PY'
import json,sys
p,s,ec=sys.argv[1:4]
try:
    d=json.load(open(f'/tmp/hm_sweep/evidence/{p}.json'))
    fl=d['coverage']['floors']
    worst=min((f['observed']/f['minimum'] if f['minimum'] else 99) for f in fl) if fl else 99
    w=min(fl,key=lambda f:(f['observed']/f['minimum'] if f['minimum'] else 99))['name'] if fl else ''
    print(p,'seed',s,'exit',ec,'wall',d['wall_s'],'worst floor ratio %.2f'%worst,w)
except Exception as e: print(p,s,ec,'no evidence',e)
PY
  if [ $ec -ne 0 ]; then echo "$out" | tail -3; grep mechanism /tmp/hm_sweep/err.txt | head -5; fi
done; done
