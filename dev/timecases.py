import json, sys, time, importlib
from hivemon.drive import engines
mod = importlib.import_module("hivemon.checks."+sys.argv[1])
cases = mod.build_cases(sys.argv[2], 0)
sel = range(int(sys.argv[3]), int(sys.argv[4]))
for i in sel:
    c = cases[i]
    t=time.time()
    r = engines.get(c["engine"])(c)
    print(i, round(time.time()-t,1), json.dumps(r.get("summary"))[:300], r.get("violation_counts"))
