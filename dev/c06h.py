import json, sys, collections
from hivemon.checks.c06 import build_cases
from hivemon.drive import tracer
import hivemon.monitors.movement as M
cases=build_cases("quick",0)
tot=collections.Counter()
for i in (1,7,13,19):
    c=cases[i]
    orig=M.C06.on_step
    def dbg(self, ctx, orig=orig):
        orig(self, ctx)
        for v in ctx.s.vehicles.values():
            if v.driver_state.schedule_id:
                n=type(v.vehicle_state).__name__
                tot[(n, 'full' if ctx.env.mechatronics[v.mechatronics_id].is_full(v) else 'notfull', 'avail' if v.driver_state.available else 'off')]+=1
    M.C06.on_step=dbg
    r=tracer.run_trace(c)
    M.C06.on_step=orig
    print(i, r['summary']['human'], r['summary']['vehicles'], r['violation_counts'])
for k,v in sorted(tot.items()): print(k,v)
