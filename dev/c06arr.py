import json, sys, logging
from hivemon.drive import tracer
import hivemon.monitors.movement as M
d=json.load(open(sys.argv[1])); case=d['case']
orig=M.C06.on_step
def dbg(self, ctx):
    n0=len(ctx.violations)
    orig(self, ctx)
    for v in ctx.violations[n0:]:
        if v['mechanism'].startswith('stays'):
            vid=v['witness']['vehicle']; a=ctx.s.vehicles[vid]; vs=a.vehicle_state
            st=ctx.s.stations.get(vs.station_id)
            print(ctx.k, vid, a.mechatronics_id, vs.station_id, vs.charger_id, a.geoid, st.geoid, {c:(cs.available_chargers,cs.total_chargers) for c,cs in st.state.items()}, st.membership, a.membership, st.on_shift_access_chargers)
M.C06.on_step=dbg
logging.disable(logging.NOTSET)
r=tracer.run_trace(case)
print(r['summary'])
