#!/bin/bash
# dev/sweep2.sh <tier> <outdir> seeds... ; evidence per seed in <outdir>/seed<k>/
tier=$1; out=$2; shift 2
for s in "$@"; do
  mkdir -p $out/seed$s
  for p in C01 C02 C03 C04 C05 C06 C07 C08 C09 C10 C11 C12 C13 C14 C15 C16 C17 C18 C19 C20; do
    r=$(VERIF_SEED=$s HIVEMON_EVIDENCE=$out/seed$s HIVEMON_REPLAYS=$out/replays ./check $p --tier $tier 2>$out/err_$p_$s.txt | tail -1)
    echo "seed $s $r"
    case "$r" in HELD*) ;; *) grep mechanism $out/err_$p_$s.txt | head -4;; esac
  done
done
