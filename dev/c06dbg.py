import json, sys
from hivemon.drive import tracer
from hivemon import hooks
import hivemon.monitors.movement as M
d=json.load(open(sys.argv[1])); case=d['case']
orig=M.C06._check_frame
def dbg(self, ctx, fr, net, dt):
    n0=len(ctx.violations)
    orig(self, ctx, fr, net, dt)
    if len(ctx.violations)>n0 and ctx.violations[-1]['mechanism']=='no-progress':
        tr=fr['traverse']; err,res=tr['result']
        print('dt',dt,'route', [(l.link_id,l.start,l.end,round(l.distance_km,5),l.speed_kmph) for l in tr['route']][:3])
        print('exp', [(l.link_id,l.start,l.end,round(l.distance_km,6)) for l in res.experienced_route])
        print('rem', [(l.link_id,l.start,l.end,round(l.distance_km,6)) for l in res.remaining_route][:2])
        gt=net.link_from_link_id(tr['route'][0].link_id); print('gt', gt)
M.C06._check_frame=dbg
r=tracer.run_trace(case)
