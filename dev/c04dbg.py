import json, sys
from hivemon.drive import tracer
import hivemon.monitors.ledgers as L
d=json.load(open(sys.argv[1])); case=d['case']
orig=L.C04.on_step
def dbg(self, ctx):
    n0=len(ctx.violations)
    orig(self, ctx)
    for v in ctx.violations[n0:]:
        if v['mechanism'].startswith('idled'):
            vid=v['witness']['vehicle']; p=ctx.prev.vehicles[vid]; a=ctx.s.vehicles[vid]
            print(ctx.k, vid, p.vehicle_state, dict(p.energy), dict(p.energy_expended), '->', a.vehicle_state, dict(a.energy), dict(a.energy_expended))
            print([ (e['v0'].id, e['dt']) for e in ctx.H.get('idle',[])])
            print(ctx.s.applied_instructions.get(vid), [ (n,[i for i in ins if i.vehicle_id==vid]) for n,t,ins,sim in ctx.gen_log])
L.C04.on_step=dbg
r=tracer.run_trace(case)
