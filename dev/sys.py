import sys, json, time
from hivemon.drive.systematic import run_systematic
r = run_systematic({"engine":"systematic","id":"x","world":sys.argv[1],"depth":int(sys.argv[2]),"cap":int(sys.argv[3]),"split":[0,1],"props":["C02","C07","C09","C10","C17"]})
print(r["summary"], r["wall_s"])
print(r["counters"])
print(r["sets"]["activities"], len(r["sets"]["transitions"]), len(r["sets"].get("c09_triples",[])))
print(json.dumps(r["violation_counts"], indent=1))
for v in r["violations"][:5]: print(v["property"], v["mechanism"], v["message"][:300], v["witness"].get("path"))
