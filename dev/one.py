import sys, json, time
from hivemon.drive import engines
case=json.loads(sys.argv[1]); t=time.time(); r=engines.get(case["engine"])(case); print(round(time.time()-t,1), r["counters"], r["violation_counts"], r.get("summary"))
