import json, sys
from hivemon.drive import engines
d=json.load(open(sys.argv[1])); case=d['case']
from hivemon.gen.scenario import random_spec
if 'gen' in case:
    s=random_spec(case['gen']['seed'], case['gen']['profile']); print(s['mechatronics']); print(s['sim'])
r=engines.get(case['engine'])(case)
for v in r['violations'][:5]: print(v)
