import json, sys, time
from hivemon.drive.tracer import run_trace
from hivemon.checks.common import trace_case, hostile_stack, BUILTIN
mons = sys.argv[3].split(",") if len(sys.argv) > 3 else ["C02","C03","C04","C05","C06","C07","C08","C10","C17","C18","C20","C11","C09","C12","C16","C19"]
seed = int(sys.argv[1]); hostile = sys.argv[2] == "h"
prof = json.loads(sys.argv[4]) if len(sys.argv) > 4 else {}
c = trace_case("X", 0, seed, prof, hostile_stack(0.25) if hostile else BUILTIN, int(prof.pop("nsteps", 150)), mons)
t=time.time()
r = run_trace(c)
print("wall", time.time()-t)
print(json.dumps(r["summary"]))
print({k:v for k,v in sorted(r["counters"].items())})
print(r["sets"].get("activities"))
print("VIOL", json.dumps(r["violation_counts"], indent=1))
for v in r["violations"][:int(sys.argv[5]) if len(sys.argv)>5 else 6]:
    print(v["property"], v["mechanism"], v["step"], v["message"][:400])
    if "traceback" in v["witness"]: print(v["witness"]["traceback"])
