import json, sys, time, cProfile, pstats
from hivemon.drive.tracer import run_trace
from hivemon.checks.c02 import build_cases
cases = build_cases("quick", 0)
c = cases[int(sys.argv[1])]
t=time.time()
pr = cProfile.Profile(); pr.enable()
r = run_trace(c)
pr.disable()
print("wall", time.time()-t, r["summary"])
pstats.Stats(pr).sort_stats("cumulative").print_stats(35)
