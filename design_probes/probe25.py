import sys, os, logging, hashlib, json
from pathlib import Path
logging.disable(logging.CRITICAL)
import nrel.hive.app.hive_cosim as hc
from nrel.hive.reporting.handler.handler import Handler
from nrel.hive.model.membership import Membership
os.chdir(sys.argv[1]); n=int(sys.argv[2])
def cv(k,v):
    if k in ('session_id',): return None
    if isinstance(v, Membership): return sorted(v.memberships)
    if k=='vehicle_memberships' and isinstance(v, list): return sorted(v)
    if k=='fleet_id' and isinstance(v,str): return sorted(v.split(',')) if v else []
    return str(v)
class H(Handler):
    def __init__(self): self.h=hashlib.sha256(); self.per=[]
    def handle(self, reports, rp):
        ms=sorted(json.dumps([r.report_type.name, sorted((k, cv(k,v)) for k,v in r.report.items())], sort_keys=True, default=str) for r in reports)
        d=hashlib.sha256('\n'.join(ms).encode()).hexdigest()[:12]; self.per.append(d); self.h.update(d.encode())
    def close(self, rp): pass
rp=hc.load_scenario(Path('scenario.yaml'), output_suffix='ev_%d'%os.getpid())
h=H(); rp.e.reporter.add_handler(h)
rp=hc.crank(rp,n).runner_payload
import contextlib, io
with contextlib.redirect_stdout(io.StringIO()): st=rp.e.reporter.get_summary_stats(rp)
print('EV', h.h.hexdigest()[:16], hashlib.sha256(json.dumps(st, sort_keys=True).encode()).hexdigest()[:16])
