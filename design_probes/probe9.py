import logging, random, itertools
logging.disable(logging.CRITICAL)
import h3, immutables
from nrel.hive.resources.mock_lobster import *
from nrel.hive.dispatcher.instruction_generator.dispatcher import Dispatcher
from nrel.hive.state.simulation_state import simulation_state_ops as sso
rnd = random.Random(11)
env = mock_env()
print(env.config.dispatcher.valid_dispatch_states, env.config.dispatcher.matching_range_km_threshold, env.fleet_ids)
bad=0
for trial in range(300):
    nv, nr = rnd.randint(0,6), rnd.randint(0,6)
    sim = mock_sim()
    pts=[(39.75+rnd.uniform(-.01,.01), -104.99+rnd.uniform(-.01,.01)) for _ in range(4)]
    def g():
        if rnd.random()<0.4: la,lo = rnd.choice(pts)
        else: la,lo=(39.75+rnd.uniform(-.02,.02), -104.99+rnd.uniform(-.02,.02))
        return h3.geo_to_h3(la,lo,15)
    vs=[mock_vehicle_from_geoid(vehicle_id=f'v{i}', geoid=g(), soc=rnd.choice([0.05,0.5,1.0])) for i in range(nv)]
    rs=[mock_request_from_geoids(request_id=f'r{i}', origin=g(), destination=g()) for i in range(nr)]
    for e in vs+rs: sim = sso.add_entity(sim, e)
    d = Dispatcher(env.config.dispatcher)
    _, ins = d.generate_instructions(sim, env)
    mech = env.mechatronics
    ev=[v for v in vs if mech[v.mechatronics_id].range_remaining_km(v) > env.config.dispatcher.matching_range_km_threshold]
    k=min(len(ev),len(rs))
    assert len(ins)==k, (len(ins),k)
    assert len({i.vehicle_id for i in ins})==k and len({i.request_id for i in ins})==k
    cost=sum(h3.h3_distance(sim.vehicles[i.vehicle_id].geoid, sim.requests[i.request_id].geoid) for i in ins)
    # brute force
    best=None
    if len(ev)<=len(rs):
        for perm in itertools.permutations(rs, len(ev)):
            c=sum(h3.h3_distance(v.geoid,r.geoid) for v,r in zip(ev,perm)); best=c if best is None or c<best else best
    else:
        for perm in itertools.permutations(ev, len(rs)):
            c=sum(h3.h3_distance(v.geoid,r.geoid) for v,r in zip(perm,rs)); best=c if best is None or c<best else best
    if k and cost!=best: bad+=1; print('subopt',cost,best)
print('bad',bad)
