import sys, json, random
from pathlib import Path
import networkx as nx
from gen import gen
from probe5 import grid
d = Path(sys.argv[1]); dt=int(sys.argv[2]); seed=int(sys.argv[3])
gen(d, dt=dt)
rnd=random.Random(seed)
g = grid(6, rnd)
json.dump(nx.node_link_data(g, edges="edges"), open(d/'net.json','w'))
y=(d/'scenario.yaml').read_text().replace('network_type: euclidean','network_type: osm_network').replace('input:\n','input:\n  road_network_file: net.json\n')
(d/'scenario.yaml').write_text(y)
import shutil; shutil.copy('/root/scratch/p1/s1/prices.csv', d/'prices.csv')
