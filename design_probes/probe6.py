import sys, os, logging, random, collections
from pathlib import Path
import nrel.hive.app.hive_cosim as hc
from nrel.hive.dispatcher.instruction.instructions import *
from nrel.hive.model.energy.energytype import EnergyType
from nrel.hive.state.vehicle_state.charging_station import ChargingStation
from nrel.hive.state.vehicle_state.charging_base import ChargingBase
from nrel.hive.state.vehicle_state.charge_queueing import ChargeQueueing
from nrel.hive.state.vehicle_state.reserve_base import ReserveBase
from nrel.hive.state.vehicle_state.dispatch_trip import DispatchTrip
from nrel.hive.state.vehicle_state.servicing_trip import ServicingTrip
from nrel.hive.state.vehicle_state.dispatch_station import DispatchStation
from nrel.hive.state.vehicle_state.dispatch_base import DispatchBase
from nrel.hive.dispatcher.instruction_generator.dispatcher import Dispatcher
from nrel.hive.dispatcher.instruction_generator.charging_fleet_manager import ChargingFleetManager
logging.disable(logging.CRITICAL)
scen = sys.argv[1]; seed=int(sys.argv[2]); n=int(sys.argv[3])
os.chdir(scen)
rnd = random.Random(seed)
def hostile(sim, env):
    out=[]
    vids = list(sim.get_vehicle_ids()); sids=list(sim.get_station_ids())+['nope']; bids=list(sim.get_base_ids())+['nope']; rids=list(sim.get_request_ids())+['nope']
    chargers = list(env.chargers.keys())+['nope']
    for vid in vids:
        if rnd.random()<0.25:
            k = rnd.randrange(9)
            if k==0: out.append(IdleInstruction(vid))
            elif k==1: out.append(DispatchTripInstruction(vid, rnd.choice(rids)))
            elif k==2: out.append(DispatchStationInstruction(vid, rnd.choice(sids), rnd.choice(chargers)))
            elif k==3: out.append(ChargeStationInstruction(vid, rnd.choice(sids), rnd.choice(chargers)))
            elif k==4: out.append(ChargeBaseInstruction(vid, rnd.choice(bids), rnd.choice(chargers)))
            elif k==5: out.append(DispatchBaseInstruction(vid, rnd.choice(bids)))
            elif k==6: out.append(ReserveBaseInstruction(vid, rnd.choice(bids)))
            elif k==7:
                v=sim.vehicles[vid]; out.append(RepositionInstruction(vid, v.position.link_id))
            elif k==8 and rnd.random()<0.2: out.append(OutOfServiceInstruction(vid))
    return tuple(out)
rp = hc.load_scenario(Path('scenario.yaml'), output_suffix='p6_%d'%os.getpid())
from nrel.hive.runner.runner_payload_ops import set_instruction_generators
from nrel.hive.dispatcher.instruction_generator.instruction_function import instruction_generator_from_function
rp = set_instruction_generators(rp, (Dispatcher(rp.e.config.dispatcher), ChargingFleetManager(rp.e.config.dispatcher), instruction_generator_from_function(hostile)))
viol = collections.Counter()
def check(s, step):
    use = collections.Counter(); q = collections.Counter(); stall = collections.Counter()
    for v in s.get_vehicles():
        vs = v.vehicle_state
        if isinstance(vs, ChargingStation):
            use[(vs.station_id, vs.charger_id)]+=1
            if s.stations[vs.station_id].geoid != v.geoid: viol['C07 chargingstation loc']+=1
        elif isinstance(vs, ChargingBase):
            b=s.bases[vs.base_id]; use[(b.station_id, vs.charger_id)]+=1; stall[b.id]+=1
            if b.geoid != v.geoid: viol['C07 chargingbase loc']+=1
        elif isinstance(vs, ChargeQueueing):
            q[(vs.station_id, vs.charger_id)]+=1
            if s.stations[vs.station_id].geoid != v.geoid: viol['C07 queue loc']+=1
            if vs.charger_id not in s.stations[vs.station_id].state: viol['queue for missing plug']+=1
        elif isinstance(vs, ReserveBase):
            stall[vs.base_id]+=1
            if s.bases[vs.base_id].geoid != v.geoid: viol['C07 reserve loc']+=1
    for st in s.get_stations():
        for c, cs in st.state.items():
            if not (0<=cs.available_chargers<=cs.total_chargers): viol['C02 range']+=1
            if cs.total_chargers-cs.available_chargers != use[(st.id,c)]: viol['C02 plug count %s %s'%(st.id,c)]+=1; 
            if cs.enqueued_vehicles != q[(st.id,c)]: viol['C02 queue count']+=1
    for b in s.get_bases():
        if b.total_stalls-b.available_stalls != stall[b.id]: viol['C02 stall']+=1
    for r in s.get_requests():
        if r.dispatched_vehicle:
            v = s.vehicles.get(r.dispatched_vehicle)
            if not v or not isinstance(v.vehicle_state, DispatchTrip) or v.vehicle_state.request_id != r.id:
                viol['C17 stale (%s)'%(type(v.vehicle_state).__name__ if v else None)]+=1
states=collections.Counter()
for i in range(n):
    rp = hc.crank(rp,1).runner_payload
    check(rp.s, i)
    for v in rp.s.get_vehicles(): states[type(v.vehicle_state).__name__]+=1
print(dict(states))
print(dict(viol))
