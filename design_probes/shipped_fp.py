import sys, os, json, shutil, time, logging, hashlib
from pathlib import Path
logging.disable(logging.CRITICAL)
src=Path('/repo/nrel/hive/resources/scenarios')/sys.argv[1]; name=sys.argv[2]; n=int(sys.argv[3]); tag=sys.argv[4]
dst=Path('/root/scratch/p1/ship_'+sys.argv[1]+'_'+tag); shutil.rmtree(dst, ignore_errors=True); shutil.copytree(src,dst)
for f in (dst/'road_network').glob('*.json'):
    d=json.load(open(f))
    if 'links' in d: d['edges']=d.pop('links'); json.dump(d,open(f,'w'))
(dst/'.hive.yaml').write_text('output_base_directory: "%s"\nlog_run: False\nlog_states: False\nlog_events: False\nlog_instructions: False\nlog_stats: True\nlog_kepler: False\nlog_station_capacities: False\nlog_time_step_stats: False\nlog_fleet_time_step_stats: False\nlog_level: ERROR\nverbose: False\n'%(dst/'out'))
(dst/'out').mkdir()
os.chdir(dst)
import nrel.hive.app.hive_cosim as hc
rp=hc.load_scenario(dst/name, output_suffix='x')
h=hashlib.sha256()
def fp(s):
    out=[]
    for v in s.get_vehicles():
        vs = v.vehicle_state
        d = {k:(str(val) if k!='instance_id' else None) for k,val in vs.__dict__.items()}
        out.append((v.id, v.position, sorted((k.name,x) for k,x in v.energy.items()), v.balance, v.distance_traveled_km, type(vs).__name__, sorted(d.items()), type(v.driver_state).__name__))
    for st in s.get_stations(): out.append((st.id, st.balance, sorted((k,tuple(c)[2:]) for k,c in st.state.items())))
    for b in s.get_bases(): out.append((b.id,b.available_stalls))
    for r in s.get_requests(): out.append((r.id,r.dispatched_vehicle))
    return repr(out)
first=None
for i in range(n):
    rp=hc.crank(rp,1).runner_payload; h.update(fp(rp.s).encode())
print('FP', h.hexdigest()[:16])
shutil.rmtree(dst, ignore_errors=True)
