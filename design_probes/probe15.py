import sys, os, logging, random, collections
from pathlib import Path
logging.disable(logging.CRITICAL)
import nrel.hive.app.hive_cosim as hc
import nrel.hive.state.simulation_state.update.step_simulation as ss
from nrel.hive.state.simulation_state.update.step_simulation_ops import apply_instructions as real_apply
from nrel.hive.dispatcher.instruction.instructions import *
from nrel.hive.dispatcher.instruction_generator.dispatcher import Dispatcher
from nrel.hive.dispatcher.instruction_generator.charging_fleet_manager import ChargingFleetManager
from nrel.hive.runner.runner_payload_ops import set_instruction_generators
from nrel.hive.dispatcher.instruction_generator.instruction_function import instruction_generator_from_function
import dataclasses
def canon(x):
    import immutables, uuid, enum
    if isinstance(x, uuid.UUID): return 'UUID'
    if isinstance(x, immutables.Map): return ('M', tuple(sorted((repr(canon(k)), canon(v)) for k,v in x.items())))
    if isinstance(x, frozenset): return ('F', tuple(sorted(repr(canon(i)) for i in x)))
    if dataclasses.is_dataclass(x) and not isinstance(x,type): return (type(x).__name__, tuple((f.name, canon(getattr(x,f.name))) for f in dataclasses.fields(x)))
    if isinstance(x, tuple) and hasattr(x,'_fields'): return (type(x).__name__, tuple((f, canon(getattr(x,f))) for f in x._fields if f!='road_network'))
    if isinstance(x, tuple): return tuple(canon(i) for i in x)
    if isinstance(x, enum.Enum): return x.name
    if isinstance(x,(int,float,str,bool,type(None))): return x
    return repr(type(x))
def fp(s, with_ai=True):
    if not with_ai: s=s._replace(applied_instructions=__import__('immutables').Map())
    return canon(s)
tot=collections.Counter(); viol=collections.Counter()
captured=[]
def wrap(sim, env, instructions):
    out=real_apply(sim, env, instructions); captured.append((sim, instructions, out)); return out
ss.apply_instructions=wrap
scen=sys.argv[1]; seed=int(sys.argv[2]); n=int(sys.argv[3])
os.chdir(scen); rnd=random.Random(seed)
def hostile(sim, env):
    out=[]
    vids = list(sim.get_vehicle_ids()); sids=list(sim.get_station_ids())+['nope']; bids=list(sim.get_base_ids())+['nope']; rids=list(sim.get_request_ids())+['nope']
    chargers = list(env.chargers.keys())+['nope']
    for vid in vids:
        if rnd.random()<0.3:
            k = rnd.randrange(8)
            if k==0: out.append(IdleInstruction(vid))
            elif k==1: out.append(DispatchTripInstruction(vid, rnd.choice(rids)))
            elif k==2: out.append(DispatchStationInstruction(vid, rnd.choice(sids), rnd.choice(chargers)))
            elif k==3: out.append(ChargeStationInstruction(vid, rnd.choice(sids), rnd.choice(chargers)))
            elif k==4: out.append(ChargeBaseInstruction(vid, rnd.choice(bids), rnd.choice(chargers)))
            elif k==5: out.append(DispatchBaseInstruction(vid, rnd.choice(bids)))
            elif k==6: out.append(ReserveBaseInstruction(vid, rnd.choice(bids)))
            elif k==7: out.append(RepositionInstruction(vid, sim.vehicles[vid].position.link_id))
    return tuple(out)
rp = hc.load_scenario(Path('scenario.yaml'), output_suffix='p15_%d'%os.getpid())
rp = set_instruction_generators(rp, (Dispatcher(rp.e.config.dispatcher), ChargingFleetManager(rp.e.config.dispatcher), instruction_generator_from_function(hostile)))
expect = {'IdleInstruction':('Idle',), 'DispatchTripInstruction':('DispatchTrip',), 'DispatchStationInstruction':('DispatchStation','ChargingStation'), 'ChargeStationInstruction':('ChargingStation',), 'ChargeBaseInstruction':('ChargingBase',), 'DispatchBaseInstruction':('DispatchBase',), 'ReserveBaseInstruction':('ReserveBase',), 'RepositionInstruction':('Repositioning',), 'OutOfServiceInstruction':('OutOfService',)}
for k in range(n):
    captured.clear()
    rp=hc.crank(rp,1).runner_payload
    saved=list(rp.e.reporter.reports)
    for (before, ins, after) in captured:
        T=before
        for i in ins:
            T2=real_apply(T, rp.e, (i,))
            tot['instr']+=1
            v2=T2.vehicles.get(i.vehicle_id); v1=T.vehicles.get(i.vehicle_id)
            changed = fp(T2, False)!=fp(T, False)
            entered = v2 is not None and type(v2.vehicle_state).__name__ in expect[type(i).__name__] and v2.vehicle_state.instance_id != v1.vehicle_state.instance_id
            if entered: tot['accepted']+=1
            else:
                tot['rejected']+=1
                if changed: viol['rejected but changed %s from %s'%(type(i).__name__, type(v1.vehicle_state).__name__)]+=1
                if i.vehicle_id in T2.applied_instructions: viol['D13 rejected listed as applied']+=1
            T=T2
        if fp(T, False)!=fp(after, False): viol['batch != sequential']+=1
    rp.e.reporter.reports[:]=saved
print(dict(tot)); print(dict(viol))
