import logging
logging.disable(logging.CRITICAL)
from nrel.hive.resources.mock_lobster import *
bev = mock_bev()
print(bev.charge_taper_cutoff_kw, bev.battery_capacity_kwh, bev.powercurve.step_size_seconds)
veh = mock_vehicle(soc=0.2)
ch = mock_dcfc_charger()
for dt in (1, 30, 60, 61, 90, 120):
    v2, t = bev.add_energy(veh, ch, dt)
    gained = v2.energy[EnergyType.ELECTRIC]-veh.energy[EnergyType.ELECTRIC]
    print(dt, 'gained', round(gained,5), 'max deliverable', round(ch.rate*dt/3600,5), 'time charged', t, 'VIOL' if gained > ch.rate*dt/3600+1e-9 else '')
