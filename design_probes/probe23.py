import sys, os, logging, collections
from pathlib import Path
logging.disable(logging.CRITICAL)
import nrel.hive.app.hive_cosim as hc
from nrel.hive.dispatcher.instruction_generator.dispatcher import Dispatcher
from nrel.hive.dispatcher.instruction_generator.charging_fleet_manager import ChargingFleetManager
os.chdir(sys.argv[1]); n=int(sys.argv[2])
cnt=collections.Counter()
def grants(e, v): return len(e.membership.memberships)==0 or len(e.membership.memberships & v.membership.memberships)>0
o1=Dispatcher.generate_instructions
def w1(self, sim, env):
    res=o1(self, sim, env)
    for i in res[1]:
        v=sim.vehicles[i.vehicle_id]; r=sim.requests[i.request_id]; cnt['disp']+=1
        if not grants(r,v): cnt['disp pair not granted (veh %s req %s)'%(sorted(v.membership.memberships), sorted(r.membership.memberships))]+=1
    return res
Dispatcher.generate_instructions=w1
o2=ChargingFleetManager.generate_instructions
def w2(self, sim, env):
    res=o2(self, sim, env)
    for i in res[1]:
        v=sim.vehicles[i.vehicle_id]; s=sim.stations[i.station_id]; cnt['cfm']+=1
        if not grants(s,v): cnt['cfm pair not granted']+=1
    return res
ChargingFleetManager.generate_instructions=w2
rp=hc.load_scenario(Path('scenario.yaml'), output_suffix='c10_%d'%os.getpid())
rp=hc.crank(rp,n).runner_payload
print(dict(cnt))
