import logging, random, itertools
logging.disable(logging.CRITICAL)
import networkx as nx, h3
from nrel.hive.model.roadnetwork.osm.osm_roadnetwork import OSMRoadNetwork
from nrel.hive.util.h3_ops import H3Ops
rnd = random.Random(3)
def grid(n, rnd):
    g = nx.MultiDiGraph()
    lat0, lon0 = 39.75, -104.99
    for i in range(n):
        for j in range(n):
            g.add_node(i*n+j, y=lat0+i*0.002+rnd.uniform(-3e-4,3e-4), x=lon0+j*0.0025+rnd.uniform(-3e-4,3e-4))
    def add(u,v):
        a=h3.geo_to_h3(g.nodes[u]['y'],g.nodes[u]['x'],15); b=h3.geo_to_h3(g.nodes[v]['y'],g.nodes[v]['x'],15)
        d=H3Ops.great_circle_distance(a,b)*1000
        sp = rnd.choice([8,15,30,50,100])
        g.add_edge(u,v,length=d*rnd.uniform(1.0,1.3)+1, speed_kmph=sp)
    for i in range(n):
        for j in range(n):
            u=i*n+j
            if j+1<n: add(u,u+1); add(u+1,u)
            if i+1<n: add(u,u+n); add(u+n,u)
    return g
bad=0; tot=0
for trial in range(5):
    g = grid(6, rnd)
    rn = OSMRoadNetwork(g)
    links = list(rn.link_helper.links.values())
    for _ in range(200):
        a,b = rnd.sample(links,2)
        from nrel.hive.model.entity_position import EntityPosition
        r = rn.route(EntityPosition(a.link_id,a.start), EntityPosition(b.link_id,b.end))
        inner = r[1:-1]
        u = int(a.link_id.split('-')[1]); v=int(b.link_id.split('-')[0])
        cost = sum(rn.graph[int(l.link_id.split('-')[0])][int(l.link_id.split('-')[1])][0]['travel_time'] for l in inner)
        opt = nx.dijkstra_path_length(rn.graph,u,v,weight='travel_time')
        tot+=1
        if cost > opt+1e-6:
            bad+=1
            if bad<4: print('suboptimal', a.link_id,b.link_id, cost, opt)
print(bad, tot)
