# omnibus probe of oracle formulas (C03 C04 C05 C06 C19-ish) under builtin control on haversine
import sys, os, logging, collections, math, json
from pathlib import Path
import h3
import nrel.hive.app.hive_cosim as hc
from nrel.hive.model.energy.energytype import EnergyType
from nrel.hive.reporting.handler.handler import Handler
from nrel.hive.state.vehicle_state import vehicle_state_ops as vso
from nrel.hive.state.vehicle_state.servicing_trip import ServicingTrip
from nrel.hive.state.vehicle_state.out_of_service import OutOfService
import nrel.hive.state.vehicle_state.servicing_trip as st_mod
logging.disable(logging.CRITICAL)
os.chdir(sys.argv[1]); n=int(sys.argv[2])
class H(Handler):
    def __init__(self): self.cur=[]
    def handle(self, reports, rp): self.cur=list(reports)
    def close(self, rp): pass
moves=[]
orig_traverse = vso.traverse
def tr(route_estimate, duration_seconds, road_network):
    r = orig_traverse(route_estimate=route_estimate, duration_seconds=duration_seconds, road_network=road_network)
    moves.append((route_estimate, duration_seconds, r))
    return r
vso.traverse = tr
rp = hc.load_scenario(Path('scenario.yaml'), output_suffix='p10_%d'%os.getpid())
h=H(); rp.e.reporter.add_handler(h)
viol=collections.Counter(); cnt=collections.Counter()
dt = rp.s.sim_timestep_duration_seconds
init = {v.id: dict(v.energy) for v in rp.s.get_vehicles()}
fare=collections.defaultdict(float); paid=collections.defaultdict(float); recv=collections.defaultdict(float)
reqstate={}
prev=rp.s
res = 15
for k in range(n):
    moves.clear()
    rp = hc.crank(rp,1).runner_payload
    s=rp.s; E=h.cur
    # C06: per move
    for (route, dur, (err,res_)) in moves:
        if err or res_ is None: continue
        exp, rem = res_.experienced_route, res_.remaining_route
        if not exp: 
            if route and route[0].start != route[-1].end: viol['C06 no-exp on nonloop']+=1
            continue
        cnt['moves']+=1
        # speed bound
        tfull=0; 
        full = exp[:-1] if rem and rem[0].link_id==exp[-1].link_id and exp[-1].end==rem[0].start and exp[-1].end != route[len(exp)-1].end else exp
        for l in full:
            gt = s.road_network.link_from_link_id(l.link_id)
            tfull += int(l.distance_km/gt.speed_kmph*3600)
        if tfull>dur: viol['C06 full-link time %d>%d'%(tfull,dur)]+=1
        if len(full)<len(exp):
            l=exp[-1]; gt=s.road_network.link_from_link_id(l.link_id)
            allowed = gt.speed_kmph*(dur-tfull)/3600 + 2*h3.edge_length(15,'km')
            if l.distance_km>allowed: viol['C06 partial too far']+=1; print(l.distance_km, allowed)
            cnt['partial']+=1
        # concat
        ids = [l.link_id for l in exp] + [l.link_id for l in rem]
        oid = [l.link_id for l in route]
        # remove duplicate split
        if rem and exp[-1].link_id==rem[0].link_id and len(exp)+len(rem)==len(route)+1:
            ids = [l.link_id for l in exp] + [l.link_id for l in rem[1:]]
        if ids!=oid: viol['C06 concat']+=1
        if exp[0].start!=route[0].start or (rem and rem[-1].end!=route[-1].end) or (not rem and exp[-1].end!=route[-1].end): viol['C06 ends']+=1
        if rem and exp[-1].end!=rem[0].start: viol['C06 junction']+=1
    for v in s.get_vehicles():
        p=prev.vehicles[v.id]
        # C04 accounting
        for et,e in v.energy.items():
            exp_e = init[v.id][et]+v.energy_gained[et]-v.energy_expended[et]
            if abs(e-exp_e)>1e-6: viol['C04 account %s'%et.name]+=1
        if v.distance_traveled_km>p.distance_traveled_km:
            cnt['moved']+=1
            et=list(v.energy)[0]
            if not v.energy_expended[et]>p.energy_expended[et]: viol['C04 move no expend']+=1
        if v.geoid!=p.geoid and not v.distance_traveled_km>p.distance_traveled_km: viol['C06 pos change w/o odometer']+=1
    # events
    for r in E:
        t=r.report_type.name; d=r.report
        if t=='PICKUP_REQUEST_EVENT':
            fare[d['vehicle_id']]+=d['price']; cnt['pickup']+=1
            if d['request_id'] in reqstate and reqstate[d['request_id']]!='added': viol['C03 pickup of %s'%reqstate[d['request_id']]]+=1
            reqstate[d['request_id']]='picked'
        elif t=='ADD_REQUEST_EVENT': 
            if d['request_id'] in reqstate: viol['C03 double add']+=1
            reqstate[d['request_id']]='added'
        elif t=='CANCEL_REQUEST_EVENT':
            if reqstate.get(d['request_id'])!='added': viol['C03 cancel of %s'%reqstate.get(d['request_id'])]+=1
            reqstate[d['request_id']]='cancelled'; cnt['cancel']+=1
        elif t=='DROPOFF_REQUEST_EVENT':
            if reqstate.get(d['request_id'])!='picked': viol['C03 dropoff of %s'%reqstate.get(d['request_id'])]+=1
            reqstate[d['request_id']]='dropped'; cnt['dropoff']+=1
        elif t=='VEHICLE_CHARGE_EVENT':
            paid[d['vehicle_id']]+=d['price']; recv[d['station_id']]+=d['price']; cnt['charge']+=1
            st = s.stations[d['station_id']]
            tariff = st.state[d['charger_id']].price_per_kwh
            if abs(d['price']-d['energy']*tariff)>1e-9: viol['C05 price']+=1
    # requests set vs ledger
    waiting = {r for r,stt in reqstate.items() if stt=='added'}
    if waiting != set(s.requests.keys()): viol['C03 waiting set mismatch']+=1
    for v in s.get_vehicles():
        if abs(v.balance-(fare[v.id]-paid[v.id]))>1e-6: viol['C05 veh balance']+=1
    for stn in s.get_stations():
        if abs(stn.balance-recv[stn.id])>1e-6: viol['C05 station balance']+=1
    for et in EnergyType:
        g=sum(v.energy_gained.get(et,0) for v in s.get_vehicles()); dsp=sum(x.energy_dispensed.get(et,0) for x in s.get_stations())
        if abs(g-dsp)>1e-6: viol['C05 energy %s'%et.name]+=1
    prev=s
print(dict(cnt)); print(dict(viol))
