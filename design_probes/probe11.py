import sys, os, logging, random, collections, shutil
from pathlib import Path
logging.disable(logging.CRITICAL)
import nrel.hive.app.hive_cosim as hc
from nrel.hive.reporting.handler.handler import Handler
from gen import gen
class H(Handler):
    def __init__(self): self.cur=[]
    def handle(self, reports, rp): self.cur=list(reports)
    def close(self, rp): pass
tot=collections.Counter(); viol=collections.Counter()
for case in range(int(sys.argv[1])):
    rnd=random.Random(1000+case)
    d=Path('/root/scratch/p1/c11'); shutil.rmtree(d, ignore_errors=True)
    dt=rnd.choice([1,7,30,60,61,300]); start=rnd.choice([0,0,3600,86399, 1000]); timeout=rnd.choice([1,59,60,600,601]); nsteps=rnd.randint(20,120)
    gen(d, dt=dt)
    y=(d/'scenario.yaml').read_text().replace('start_time: 0',f'start_time: {start}').replace('end_time: 14400',f'end_time: {start+nsteps*dt}').replace('request_cancel_time_seconds: 600',f'request_cancel_time_seconds: {timeout}')
    (d/'scenario.yaml').write_text(y)
    lazy = rnd.random()<0.5
    if lazy: open(d/'.hive.yaml','a').write('lazy_file_reading: True\n')
    reqs=[]; t=start-rnd.choice([0,0,10,700])
    for i in range(rnd.randint(0,80)):
        t+=rnd.choice([0,0,0,1,dt,dt-1,dt+1,5*dt, rnd.randint(0,3*dt)])
        reqs.append((f'r{i}',t))
    with open(d/'requests.csv','w') as f:
        f.write('request_id,o_lat,o_lon,d_lat,d_lon,departure_time,passengers\n')
        for rid,t in reqs: f.write(f'{rid},39.75,-104.99,39.76,-104.98,{max(t,0)},1\n')
    reqs=[(rid,max(t,0)) for rid,t in reqs]
    # tariffs: complete tables per timestamp
    sts={'s1':['DCFC','LEVEL_2','GAS_PUMP'],'s2':['DCFC'],'bs1':['LEVEL_2'],'hbs1':['LEVEL_2']}
    rows=[]; tt=start-rnd.choice([0,5,100])
    for w in range(rnd.randint(1,5)):
        tt+=rnd.choice([0,1,dt,dt*3,dt*7+3])
        for s,cs in sts.items():
            for c in cs:
                if rnd.random()<0.9: rows.append((max(tt,0),s,c,round(rnd.uniform(0,1),3)))
        # ensure every station appears in each timestamp (avoid D4)
        for s,cs in sts.items():
            if not any(r[0]==max(tt,0) and r[1]==s for r in rows): rows.append((max(tt,0),s,cs[0],0.5))
    with open(d/'prices.csv','w') as f:
        f.write('time,station_id,charger_id,price_kwh\n')
        for r in rows: f.write('%d,%s,%s,%s\n'%r)
    os.chdir(d)
    rp = hc.load_scenario(Path('scenario.yaml'), custom_instruction_generators=(), output_suffix='x')
    h=H(); rp.e.reporter.add_handler(h)
    added={}; cancelled={}
    price=collections.defaultdict(float)
    for k in range(nsteps):
        tk=start+k*dt
        rp=hc.crank(rp,1).runner_payload
        assert int(rp.s.sim_time)==tk+dt
        for r in h.cur:
            if r.report_type.name=='ADD_REQUEST_EVENT':
                if r.report['request_id'] in added: viol['double add']+=1
                added[r.report['request_id']]=k
            if r.report_type.name=='CANCEL_REQUEST_EVENT':
                if r.report['request_id'] in cancelled: viol['double cancel']+=1
                cancelled[r.report['request_id']]=k
        # expected prices
        for (t,s,c,p) in rows:
            pass
        exp={}
        for (t,s,c,p) in rows:
            if t<tk: exp[(s,c)]=p
        for s,cs in sts.items():
            for c in cs:
                got=rp.s.stations[s].state[c].price_per_kwh
                if abs(got-exp.get((s,c),0.0))>1e-12: viol['price']+=1
                tot['pricechk']+=1
    # expected admissions
    import math
    for rid,dep in reqs:
        # first k with tk > dep
        k = max(0, math.floor((dep-start)/dt)+1)
        tk = start+k*dt
        exp_add = k if (k<nsteps and dep+timeout>tk) else None
        if added.get(rid)!=exp_add: viol['add step']+=1; print('ADD', rid, dep, 'exp',exp_add,'got',added.get(rid), dict(dt=dt,start=start,timeout=timeout,lazy=lazy))
        if exp_add is not None:
            kc = max(0, math.ceil((dep+timeout-start)/dt)); 
            exp_c = kc if kc<nsteps else None
            if cancelled.get(rid)!=exp_c: viol['cancel step']+=1; print('CANCEL', rid, dep, exp_c, cancelled.get(rid), dict(dt=dt,start=start,timeout=timeout))
            tot['admitted']+=1
        else: tot['notadmitted']+=1
    os.chdir('/root/scratch/p1')
print(dict(tot)); print(dict(viol))
