# hostile omnibus: C03 ledger, C05, C07, C10, C17, C02 under hostile controller (+fleets)
import sys, os, logging, collections, random
from pathlib import Path
import h3
import nrel.hive.app.hive_cosim as hc
from nrel.hive.model.energy.energytype import EnergyType
from nrel.hive.reporting.handler.handler import Handler
from nrel.hive.dispatcher.instruction.instructions import *
from nrel.hive.state.vehicle_state.charging_station import ChargingStation
from nrel.hive.state.vehicle_state.charging_base import ChargingBase
from nrel.hive.state.vehicle_state.charge_queueing import ChargeQueueing
from nrel.hive.state.vehicle_state.reserve_base import ReserveBase
from nrel.hive.state.vehicle_state.dispatch_trip import DispatchTrip
from nrel.hive.state.vehicle_state.servicing_trip import ServicingTrip
from nrel.hive.state.vehicle_state.dispatch_station import DispatchStation
from nrel.hive.state.vehicle_state.dispatch_base import DispatchBase
from nrel.hive.state.vehicle_state.repositioning import Repositioning
from nrel.hive.state.vehicle_state.out_of_service import OutOfService
from nrel.hive.dispatcher.instruction_generator.dispatcher import Dispatcher
from nrel.hive.dispatcher.instruction_generator.charging_fleet_manager import ChargingFleetManager
from nrel.hive.runner.runner_payload_ops import set_instruction_generators
from nrel.hive.dispatcher.instruction_generator.instruction_function import instruction_generator_from_function
logging.disable(logging.CRITICAL)
scen=sys.argv[1]; seed=int(sys.argv[2]); n=int(sys.argv[3]); p=float(sys.argv[4]) if len(sys.argv)>4 else 0.2
os.chdir(scen); rnd=random.Random(seed)
class H(Handler):
    def __init__(self): self.cur=[]
    def handle(self, reports, rp): self.cur=list(reports)
    def close(self, rp): pass
def hostile(sim, env):
    out=[]
    vids = list(sim.get_vehicle_ids()); sids=list(sim.get_station_ids())+['nope']; bids=list(sim.get_base_ids())+['nope']; rids=list(sim.get_request_ids())+['nope']
    chargers = list(env.chargers.keys())+['nope']
    for vid in vids:
        if rnd.random()<p:
            k = rnd.randrange(9)
            if k==0: out.append(IdleInstruction(vid))
            elif k==1: out.append(DispatchTripInstruction(vid, rnd.choice(rids)))
            elif k==2: out.append(DispatchStationInstruction(vid, rnd.choice(sids), rnd.choice(chargers)))
            elif k==3: out.append(ChargeStationInstruction(vid, rnd.choice(sids), rnd.choice(chargers)))
            elif k==4: out.append(ChargeBaseInstruction(vid, rnd.choice(bids), rnd.choice(chargers)))
            elif k==5: out.append(DispatchBaseInstruction(vid, rnd.choice(bids)))
            elif k==6: out.append(ReserveBaseInstruction(vid, rnd.choice(bids)))
            elif k==7: out.append(RepositionInstruction(vid, sim.vehicles[rnd.choice(vids)].position.link_id))
            elif k==8 and rnd.random()<0.1: out.append(OutOfServiceInstruction(vid))
    return tuple(out)
rp = hc.load_scenario(Path('scenario.yaml'), output_suffix='p17_%d'%os.getpid())
rp = set_instruction_generators(rp, (Dispatcher(rp.e.config.dispatcher), ChargingFleetManager(rp.e.config.dispatcher), instruction_generator_from_function(hostile)))
h=H(); rp.e.reporter.add_handler(h)
viol=collections.Counter(); cnt=collections.Counter()
def grants(e, v): return len(e.membership.memberships)==0 or len(e.membership.memberships & v.membership.memberships)>0
fare=collections.defaultdict(float); paid=collections.defaultdict(float); recv=collections.defaultdict(float)
reqstate={}; onboard={}
init = {v.id: dict(v.energy) for v in rp.s.get_vehicles()}
prev=rp.s
for k in range(n):
    rp = hc.crank(rp,1).runner_payload
    s=rp.s; E=h.cur
    for r in E:
        t=r.report_type.name; d=r.report
        if t=='PICKUP_REQUEST_EVENT':
            fare[d['vehicle_id']]+=d['price']; cnt['pickup']+=1
            if reqstate.get(d['request_id'])!='added': viol['C03 pickup of %s'%reqstate.get(d['request_id'])]+=1
            reqstate[d['request_id']]='picked'; onboard[d['request_id']]=d['vehicle_id']
            rq = prev.requests.get(d['request_id'])
            if rq is not None and rq.origin!=d['geoid']: viol['C07 pickup not at origin']+=1
        elif t=='ADD_REQUEST_EVENT':
            if d['request_id'] in reqstate: viol['C03 double add']+=1
            reqstate[d['request_id']]='added'
        elif t=='CANCEL_REQUEST_EVENT':
            if reqstate.get(d['request_id'])!='added': viol['C03 cancel of %s'%reqstate.get(d['request_id'])]+=1
            reqstate[d['request_id']]='cancelled'; cnt['cancel']+=1
        elif t=='DROPOFF_REQUEST_EVENT':
            if reqstate.get(d['request_id'])!='picked': viol['C03 dropoff of %s'%reqstate.get(d['request_id'])]+=1
            if onboard.get(d['request_id'])!=d['vehicle_id']: viol['C03 dropoff by other']+=1
            reqstate[d['request_id']]='dropped'; cnt['dropoff']+=1
        elif t=='VEHICLE_CHARGE_EVENT':
            paid[d['vehicle_id']]+=d['price']; recv[d['station_id']]+=d['price']; cnt['charge']+=1
    waiting = {r for r,stt in reqstate.items() if stt=='added'}
    if waiting != set(s.requests.keys()): viol['C03 waiting set mismatch']+=1
    use = collections.Counter(); q = collections.Counter(); stall = collections.Counter()
    for v in s.get_vehicles():
        p0=prev.vehicles[v.id]; vs=v.vehicle_state
        cnt[type(vs).__name__]+=1
        if abs(v.balance-(fare[v.id]-paid[v.id]))>1e-6: viol['C05 veh balance']+=1
        for et,e in v.energy.items():
            if et==EnergyType.ELECTRIC and abs(e-(init[v.id][et]+v.energy_gained[et]-v.energy_expended[et]))>1e-6: viol['C04 account']+=1
        # non diversion
        if isinstance(p0.vehicle_state, ServicingTrip) and len(p0.vehicle_state.route)>0:
            if not (isinstance(vs, ServicingTrip) and vs.instance_id==p0.vehicle_state.instance_id) and not isinstance(vs, OutOfService): viol['C03 diverted to %s'%type(vs).__name__]+=1
        if isinstance(vs, ChargingStation):
            st=s.stations[vs.station_id]; use[(vs.station_id, vs.charger_id)]+=1
            if st.geoid!=v.geoid: viol['C07 chargingstation loc']+=1
            if not grants(st,v): viol['C10 chargingstation']+=1
        elif isinstance(vs, ChargingBase):
            b=s.bases[vs.base_id]; use[(b.station_id, vs.charger_id)]+=1; stall[b.id]+=1
            if b.geoid!=v.geoid: viol['C07 chargingbase loc (D3)']+=1
            if not grants(b,v): viol['C10 chargingbase']+=1
        elif isinstance(vs, ChargeQueueing):
            st=s.stations[vs.station_id]; q[(vs.station_id, vs.charger_id)]+=1
            if st.geoid!=v.geoid: viol['C07 queue loc']+=1
            if not grants(st,v): viol['C10 queue']+=1
        elif isinstance(vs, ReserveBase):
            b=s.bases[vs.base_id]; stall[b.id]+=1
            if b.geoid!=v.geoid: viol['C07 reserve loc']+=1
            if not grants(b,v): viol['C10 reserve']+=1
        elif isinstance(vs, DispatchTrip):
            rq=s.requests.get(vs.request_id)
            if rq is not None:
                if not grants(rq,v): viol['C10 dispatchtrip']+=1
                if vs.route and (vs.route[0].start!=v.geoid or vs.route[-1].end!=rq.origin): viol['C07 dispatchtrip route']+=1
                if not vs.route and v.geoid!=rq.origin: viol['C07 dispatchtrip empty route not at req']+=1
        elif isinstance(vs, ServicingTrip):
            if not grants(vs.request,v): viol['C10 servicing']+=1
            if vs.route and (vs.route[0].start!=v.geoid or vs.route[-1].end!=vs.request.destination): viol['C07 servicing route']+=1
        elif isinstance(vs, DispatchStation):
            st=s.stations[vs.station_id]
            if not grants(st,v): viol['C10 dispatchstation']+=1
            if vs.route and (vs.route[0].start!=v.geoid or vs.route[-1].end!=st.geoid): viol['C07 dispatchstation route']+=1
            if not vs.route and v.geoid!=st.geoid: viol['C07 dispatchstation empty not at station']+=1
        elif isinstance(vs, DispatchBase):
            b=s.bases[vs.base_id]
            if not grants(b,v): viol['C10 dispatchbase']+=1
            if vs.route and (vs.route[0].start!=v.geoid or vs.route[-1].end!=b.geoid): viol['C07 dispatchbase route']+=1
            if not vs.route and v.geoid!=b.geoid: viol['C07 dispatchbase empty not at base']+=1
        elif isinstance(vs, Repositioning):
            if vs.route and vs.route[0].start!=v.geoid: viol['C07 repositioning route']+=1
        # arrival clause
        pvs=p0.vehicle_state
        if hasattr(pvs,'route') and len(pvs.route)==0 and getattr(vs,'instance_id',None)==pvs.instance_id and type(vs)==type(pvs):
            viol['C06 stays after arriving: %s'%type(vs).__name__]+=1
    for st in s.get_stations():
        if abs(st.balance-recv[st.id])>1e-6: viol['C05 station balance']+=1
        for c, cs in st.state.items():
            if not (0<=cs.available_chargers<=cs.total_chargers): viol['C02 range']+=1
            if cs.total_chargers-cs.available_chargers != use[(st.id,c)]: viol['C02 plug count']+=1
            if cs.enqueued_vehicles != q[(st.id,c)]: viol['C02 queue count']+=1
    for b in s.get_bases():
        if b.total_stalls-b.available_stalls != stall[b.id]: viol['C02 stall']+=1
    for r in s.get_requests():
        if r.dispatched_vehicle:
            v = s.vehicles.get(r.dispatched_vehicle)
            if not v or not isinstance(v.vehicle_state, DispatchTrip) or v.vehicle_state.request_id != r.id:
                viol['C17 stale (%s)'%(type(v.vehicle_state).__name__ if v else None)]+=1
    for et in EnergyType:
        g=sum(v.energy_gained.get(et,0) for v in s.get_vehicles()); dsp=sum(x.energy_dispensed.get(et,0) for x in s.get_stations())
        if abs(g-dsp)>1e-6: viol['C05 energy %s'%et.name]+=1
    prev=s
print(dict(cnt)); print(dict(viol))
