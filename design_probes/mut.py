import subprocess, sys, os, re
RC='/root/scratch/rc'
def sh(cmd, **kw): return subprocess.run(cmd, shell=True, capture_output=True, text=True, **kw)
MUTS = {
 'M1_chargingstation_exit_keeps_plug': ('nrel/hive/state/vehicle_state/charging_station.py',
    "            return simulation_state_ops.modify_station(sim, updated_station)\n\n    def _has_reached_terminal_state_condition(\n        self, sim: \"SimulationState\", env: Environment\n    ) -> bool:\n        \"\"\"\n        test if charging is finished",
    "            return None, sim\n\n    def _has_reached_terminal_state_condition(\n        self, sim: \"SimulationState\", env: Environment\n    ) -> bool:\n        \"\"\"\n        test if charging is finished"),
 'M2_dispatchtrip_exit_no_unassign': ('nrel/hive/state/vehicle_state/dispatch_trip.py',
    "            updated_request = request.unassign_dispatched_vehicle()", "            updated_request = request"),
 'M3_cancel_strict': ('nrel/hive/state/simulation_state/update/cancel_requests.py',
    "            if sim.sim_time < this_request_cancel_time:", "            if sim.sim_time <= this_request_cancel_time:"),
 'M4_queue_sort_dropped': ('nrel/hive/state/simulation_state/update/step_simulation_ops.py',
    "                key=lambda v: (v.vehicle_state.enqueue_time, v.id)", "                key=lambda v: (-v.vehicle_state.enqueue_time, v.id)"),
 'M5_dispatchstation_no_membership': ('nrel/hive/state/vehicle_state/dispatch_station.py',
    "        elif not station.membership.grant_access_to_membership(vehicle.membership):\n            msg = f\"vehicle {vehicle.id} and station {station.id} don't share a membership\"",
    "        elif False:\n            msg = f\"vehicle {vehicle.id} and station {station.id} don't share a membership\""),
 'M6_odometer_planned': ('nrel/hive/state/vehicle_state/vehicle_state_ops.py',
    "        step_distance_km = traverse_result.traversal_distance_km", "        step_distance_km = sum(l.distance_km for l in route)"),
 'M7_station_not_paid': ('nrel/hive/state/vehicle_state/vehicle_state_ops.py',
    "        updated_station = station.receive_payment(charging_price)", "        updated_station = station"),
 'M8_idle_free': ('nrel/hive/state/vehicle_state/idle.py',
    "            less_energy_vehicle = mechatronics.idle(vehicle, sim.sim_timestep_duration_seconds)", "            less_energy_vehicle = vehicle"),
 'M9_admit_at_equal': ('nrel/hive/state/simulation_state/update/update_requests_from_file.py',
    "            stop = value < current_sim_time", "            stop = value <= current_sim_time"),
 'M10_reservebase_exit_keeps_stall': ('nrel/hive/state/vehicle_state/reserve_base.py',
    "            return simulation_state_ops.modify_base(sim, updated_base)\n\n    def _has_reached_terminal", "            return None, sim\n\n    def _has_reached_terminal"),
 'M11_transition_keeps_exit_on_failed_enter': ('nrel/hive/state/entity_state/entity_state_ops.py',
    "        elif not enter_sim:\n            return None, None", "        elif not enter_sim:\n            return None, exit_sim"),
 'M12_pickup_no_fare': ('nrel/hive/state/vehicle_state/servicing_ops.py',
    "        updated_vehicle = vehicle.receive_payment(request.value)", "        updated_vehicle = vehicle"),
 'M13_shift_end_inclusive': ('nrel/hive/util/time_helpers.py',
    "        return start <= x < end", "        return start <= x <= end"),
 'M14_get_vehicles_unsorted': ('nrel/hive/util/dict_ops.py',
    "            _, vs = zip(*sorted(xs.items(), key=lambda p: p[0]))  # type: ignore\n            return vs", "            vs = tuple(xs.values())\n            return vs"),
 'M15_search_index_not_updated': ('nrel/hive/util/dict_ops.py',
    "        if old_search_geoid == updated_search_geoid:", "        if True:"),
 'M16_drivers_first': ('nrel/hive/state/simulation_state/update/step_simulation.py',
    "            i, _ = DictOps.pop_from_stack_dict(i_stack, vid)", "            i = i_stack[vid][-1] if i_stack.get(vid) else None"),
}
if __name__=="__main__":
  which = sys.argv[1:] or list(MUTS)
  pass
for name in (which if __name__=="__main__" else []):
    f,a,b = MUTS[name]
    p=os.path.join(RC,f); s=open(p).read()
    if s.count(a)!=1: print(name,'PATTERN COUNT',s.count(a)); continue
    open(p,'w').write(s.replace(a,b))
    r=sh('cd %s && /venv/bin/python -m pytest -q -p no:cacheprovider -x --deselect tests/test_initialize_simulation.py::TestInitializeSimulation::test_initialize_simulation_with_sampling --deselect tests/test_osm_roadnetwork.py::TestOSMRoadNetwork::test_route --deselect tests/test_routetraversal.py --deselect tests/test_sample_functions.py --deselect tests/test_update_requests_sampling.py 2>&1 | tail -1'%RC)
    print(name, '| suite:', r.stdout.strip())
    sh('cd %s && git checkout -q -- .'%RC)
