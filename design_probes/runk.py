import sys, os, logging
from pathlib import Path
import nrel.hive.app.hive_cosim as hc
logging.disable(logging.CRITICAL)
os.chdir('/root/scratch/p1/k1')
rp = hc.load_scenario(Path('scenario.yaml'), output_suffix='k%d'%os.getpid())
for i in range(3):
    rp=hc.crank(rp,1).runner_payload
    v=rp.s.vehicles['v1']; print(i, type(v.vehicle_state).__name__, getattr(v.vehicle_state,'station_id',None))
