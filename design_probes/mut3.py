import subprocess, sys, os
sys.path.insert(0,'/root/scratch')
from mut import RC, sh
P='/root/scratch/p1'
MUTS={
 'C1_plug_leak_when_leaving_to_trip': ('nrel/hive/state/vehicle_state/charging_station.py',
   "        else:\n            error, updated_station = station.return_charger(self.charger_id)",
   "        elif next_state.vehicle_state_type == VehicleStateType.DISPATCH_TRIP:\n            return None, sim\n        else:\n            error, updated_station = station.return_charger(self.charger_id)"),
 'C2_stall_leak_when_plug_refused': ('nrel/hive/state/vehicle_state/charging_base.py',
   "                        log.warning(\n                            f\"vehicle {self.vehicle_id} can't checkout {self.charger_id} from {station.id}\"\n                        )\n                        return None, None",
   "                        log.warning(\n                            f\"vehicle {self.vehicle_id} can't checkout {self.charger_id} from {station.id}\"\n                        )\n                        return simulation_state_ops.modify_base(sim, updated_base)"),
 'C6_servicing_exit_accepts_out_of_service': ('nrel/hive/state/vehicle_state/servicing_trip.py',
   "        if len(self.route) == 0:\n            return None, sim\n        else:\n            return None, None",
   "        if len(self.route) == 0:\n            return None, sim\n        elif next_state.vehicle_state_type == VehicleStateType.OUT_OF_SERVICE:\n            return None, sim\n        else:\n            return None, None"),
 'C9_queue_not_dequeued_when_abandoning_to_idle': ('nrel/hive/state/vehicle_state/charge_queueing.py',
   "        else:\n            error, updated_station = station.dequeue_for_charger(self.charger_id)",
   "        elif next_state.vehicle_state_type == VehicleStateType.IDLE:\n            return None, sim\n        else:\n            error, updated_station = station.dequeue_for_charger(self.charger_id)"),
}
SUITE='cd %s && /venv/bin/python -m pytest -q -p no:cacheprovider -x --deselect tests/test_initialize_simulation.py::TestInitializeSimulation::test_initialize_simulation_with_sampling --deselect tests/test_osm_roadnetwork.py::TestOSMRoadNetwork::test_route --deselect tests/test_routetraversal.py --deselect tests/test_sample_functions.py --deselect tests/test_update_requests_sampling.py 2>&1 | tail -1'%RC
for name,(f,a,b) in MUTS.items():
    p=os.path.join(RC,f); s=open(p).read()
    if s.count(a)!=1: print(name,'PATTERN',s.count(a)); continue
    open(p,'w').write(s.replace(a,b))
    r=sh(SUITE); print(name,'| suite:',r.stdout.strip())
    r=sh(f'cd {P} && PYTHONPATH={RC} /venv/bin/python probe19.py 2 2>&1 | tail -1'); print('   systematic d2:', r.stdout.strip()[:200])
    r=sh(f'cd {P} && PYTHONPATH={RC} /venv/bin/python probe17.py {P}/s2 1 300 0.3 2>&1 | tail -1'); print('   hostile:', r.stdout.strip()[:200])
    sh('cd %s && git checkout -q -- .'%RC)
