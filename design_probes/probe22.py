# C12 in-run prototype: wrap Dispatcher.generate_instructions, independent eligibility + optimum
import sys, os, logging, collections, itertools
from pathlib import Path
import h3, networkx as nx
logging.disable(logging.CRITICAL)
import nrel.hive.app.hive_cosim as hc
from nrel.hive.dispatcher.instruction_generator.dispatcher import Dispatcher
from nrel.hive.model.energy.energytype import EnergyType
os.chdir(sys.argv[1]); n=int(sys.argv[2])
viol=collections.Counter(); cnt=collections.Counter()
def opt_cost(V,R):
    if not V or not R: return 0
    if len(V)<=6 and len(R)<=6:
        a,b=(V,R) if len(V)<=len(R) else (R,V)
        return min(sum(h3.h3_distance(x.geoid,y.geoid) for x,y in zip(a,p)) for p in itertools.permutations(b,len(a)))
    G=nx.DiGraph(); k=min(len(V),len(R))
    G.add_node('s',demand=-k); G.add_node('t',demand=k)
    for i,v in enumerate(V):
        G.add_edge('s',('v',i),capacity=1,weight=0)
        for j,r in enumerate(R): G.add_edge(('v',i),('r',j),capacity=1,weight=h3.h3_distance(v.geoid,r.geoid))
    for j,r in enumerate(R): G.add_edge(('r',j),'t',capacity=1,weight=0)
    return nx.min_cost_flow_cost(G)
orig=Dispatcher.generate_instructions
def wrapped(self, sim, env):
    res=orig(self, sim, env); ins=res[1]
    cfg=env.config.dispatcher
    fleets=sorted(env.fleet_ids) if env.fleet_ids else [None]
    per=collections.defaultdict(list)
    for i in ins:
        r=sim.requests[i.request_id]
        f=None if not env.fleet_ids else sorted(r.membership.memberships)[0]
        per[f].append(i)
    for f in fleets:
        V=[]
        for v in sorted(sim.vehicles.values(), key=lambda v:v.id):
            name=type(v.vehicle_state).__name__.lower()
            if name not in cfg.valid_dispatch_states: continue
            if not v.driver_state.available: continue
            if f is not None and not (len(v.membership.memberships)==0 or f in v.membership.memberships): continue
            m=env.mechatronics[v.mechatronics_id]
            if EnergyType.ELECTRIC in v.energy: rng=v.energy[EnergyType.ELECTRIC]/(m.nominal_watt_hour_per_mile*0.001)*1.609344
            else: rng=v.energy[EnergyType.GASOLINE]*m.nominal_miles_per_gallon*1.609344
            if name=='chargingbase' and rng<env.config.dispatcher.base_charging_range_km_threshold: continue
            if not rng>cfg.matching_range_km_threshold: continue
            V.append(v)
        R=[r for r in sim.requests.values() if not r.dispatched_vehicle and (f is None or len(r.membership.memberships)==0 or f in r.membership.memberships)]
        I=per.get(f,[])
        cnt['calls']+=1
        if V and R: cnt['nontrivial']+=1
        if len(I)!=min(len(V),len(R)): viol['count %d vs min(%d,%d)'%(len(I),len(V),len(R))]+=1; continue
        vids={v.id for v in V}; rids={r.id for r in R}
        if len({i.vehicle_id for i in I})!=len(I) or len({i.request_id for i in I})!=len(I): viol['not distinct']+=1
        if not all(i.vehicle_id in vids for i in I): viol['ineligible vehicle']+=1
        if not all(i.request_id in rids for i in I): viol['ineligible request']+=1
        cost=sum(h3.h3_distance(sim.vehicles[i.vehicle_id].geoid, sim.requests[i.request_id].geoid) for i in I)
        if cost!=opt_cost(V,R): viol['suboptimal']+=1
        cnt['max table']=max(cnt['max table'], len(V)*len(R))
    return res
Dispatcher.generate_instructions=wrapped
rp=hc.load_scenario(Path('scenario.yaml'), output_suffix='c12_%d'%os.getpid())
rp=hc.crank(rp,n).runner_payload
print(dict(cnt)); print(dict(viol))
