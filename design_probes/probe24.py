# C09 oracle B prototype: precedence (last generator wins, driver has final word)
import sys, os, logging, collections, random
from pathlib import Path
logging.disable(logging.CRITICAL)
import nrel.hive.app.hive_cosim as hc
import nrel.hive.state.simulation_state.update.step_simulation as ss
from nrel.hive.state.simulation_state.update.step_simulation_ops import apply_instructions as real_apply
from nrel.hive.dispatcher.instruction.instructions import *
from nrel.hive.dispatcher.instruction_generator.instruction_generator import InstructionGenerator
from nrel.hive.dispatcher.instruction_generator.dispatcher import Dispatcher
from nrel.hive.dispatcher.instruction_generator.charging_fleet_manager import ChargingFleetManager
from nrel.hive.runner.runner_payload_ops import set_instruction_generators
from nrel.hive.state.driver_state.human_driver_state.human_driver_state import HumanAvailable, HumanUnavailable
from nrel.hive.state.driver_state.autonomous_driver_state.autonomous_available import AutonomousAvailable
os.chdir(sys.argv[1]); seed=int(sys.argv[2]); n=int(sys.argv[3])
log=[]   # (order, source, instruction)
class Rec(InstructionGenerator):
    def __init__(self, inner): self.inner=inner
    @property
    def name(self): return self.inner.name
    def generate_instructions(self, sim, env):
        g, ins = self.inner.generate_instructions(sim, env)
        for i in ins: log.append(('gen:'+self.name, i))
        return Rec(g), ins
class Rand(InstructionGenerator):
    def __init__(self, tag, rnd): self.tag=tag; self.rnd=rnd
    @property
    def name(self): return 'Rand'+self.tag
    def generate_instructions(self, sim, env):
        out=[]
        for vid in sim.get_vehicle_ids():
            for rep in range(2):
                if self.rnd.random()<0.3:
                    out.append(self.rnd.choice([IdleInstruction(vid), DispatchBaseInstruction(vid,'b1'), DispatchStationInstruction(vid,'s1','DCFC'), RepositionInstruction(vid, sim.vehicles[vid].position.link_id), ReserveBaseInstruction(vid,'b1')]))
        return self, tuple(out)
for cls in (HumanAvailable, HumanUnavailable, AutonomousAvailable):
    def mk(orig):
        def w(self, sim, env, previous_instructions=None):
            i=orig(self, sim, env, previous_instructions)
            if i is not None: log.append(('driver', i))
            return i
        return w
    cls.generate_instruction = mk(cls.generate_instruction)
batches=[]
def wrap(sim, env, instructions):
    batches.append(instructions); return real_apply(sim, env, instructions)
ss.apply_instructions=wrap
rp=hc.load_scenario(Path('scenario.yaml'), output_suffix='c9b_%d'%os.getpid())
rnd=random.Random(seed)
rp=set_instruction_generators(rp, (Rec(Dispatcher(rp.e.config.dispatcher)), Rec(Rand('A',rnd)), Rec(ChargingFleetManager(rp.e.config.dispatcher)), Rec(Rand('B',rnd))))
viol=collections.Counter(); cnt=collections.Counter()
for k in range(n):
    log.clear(); batches.clear()
    rp=hc.crank(rp,1).runner_payload
    exp={}
    for src,i in log: exp[i.vehicle_id]=(src,i)     # later overrides earlier; drivers are logged after generators
    assert len(batches)==1
    got={i.vehicle_id:i for i in batches[0]}
    if len(got)!=len(batches[0]): viol['two instructions for one vehicle']+=1
    if set(got)!=set(exp): viol['vehicle set differs']+=1
    for vid,(src,i) in exp.items():
        cnt[src.split(':')[0]]+=1
        if got.get(vid)!=i: viol['wrong winner (expected from %s)'%src]+=1
    multi=collections.Counter(i.vehicle_id for _,i in log)
    cnt['contested']+=sum(1 for v,c in multi.items() if c>1)
print(dict(cnt)); print(dict(viol))
