import sys, os, json, shutil, time, logging
from pathlib import Path
logging.disable(logging.CRITICAL)
src=Path('/repo/nrel/hive/resources/scenarios')/sys.argv[1]; name=sys.argv[2]; n=int(sys.argv[3])
dst=Path('/root/scratch/p1/ship_'+sys.argv[1]); shutil.rmtree(dst, ignore_errors=True); shutil.copytree(src,dst)
for f in (dst/'road_network').glob('*.json'):
    d=json.load(open(f))
    if 'links' in d: d['edges']=d.pop('links'); json.dump(d,open(f,'w'))
(dst/'.hive.yaml').write_text('output_base_directory: "%s"\nlog_run: False\nlog_states: False\nlog_kepler: False\nlog_station_capacities: False\nlog_time_step_stats: False\nlog_fleet_time_step_stats: False\nlog_level: ERROR\nverbose: False\n'%(dst/'out'))
(dst/'out').mkdir()
os.chdir(dst)
import nrel.hive.app.hive_cosim as hc
t0=time.time(); rp=hc.load_scenario(dst/name, output_suffix='x'); t1=time.time()
rp=hc.crank(rp,n).runner_payload; t2=time.time()
print('load %.1fs, %d steps %.1fs, vehicles %d, requests waiting %d'%(t1-t0,n,t2-t1,len(rp.s.vehicles),len(rp.s.requests)))
import collections
print(collections.Counter(type(v.vehicle_state).__name__ for v in rp.s.get_vehicles()))
