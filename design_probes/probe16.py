import logging, random, collections
logging.disable(logging.CRITICAL)
import h3
from nrel.hive.resources.mock_lobster import *
from nrel.hive.state.simulation_state import simulation_state_ops as sso
from returns.result import Failure
rnd=random.Random(7)
tot=collections.Counter(); viol=collections.Counter()
def check(sim):
    for ents, loc, sea in ((sim.vehicles,sim.v_locations,sim.v_search),(sim.requests,sim.r_locations,sim.r_search),(sim.stations,sim.s_locations,sim.s_search),(sim.bases,sim.b_locations,sim.b_search)):
        el={}; es={}
        for i,e in ents.items():
            el.setdefault(e.geoid,set()).add(i); es.setdefault(h3.h3_to_parent(e.geoid, sim.sim_h3_search_resolution),set()).add(i)
        if {k:set(v) for k,v in loc.items()}!=el: return 'loc'
        if {k:set(v) for k,v in sea.items()}!=es: return 'search'
    return None
base=(39.75,-104.99)
def geo():
    r=rnd.random()
    if r<0.3: return h3.geo_to_h3(base[0]+rnd.choice([0,1e-5,2e-5]), base[1], 15)   # same search cell, few cells
    if r<0.6: return h3.geo_to_h3(base[0]+rnd.uniform(-.002,.002), base[1]+rnd.uniform(-.002,.002), 15)
    return h3.geo_to_h3(base[0]+rnd.uniform(-.05,.05), base[1]+rnd.uniform(-.05,.05), 15)
for trial in range(200):
    sim=mock_sim(); ids={'v':set(),'r':set(),'s':set(),'b':set()}
    for op in range(60):
        kind=rnd.choice('vrsb'); r=rnd.random(); tot['ops']+=1
        pool=sorted(ids[kind]); 
        if r<0.35 or not pool:
            i=f'{kind}{rnd.randint(0,8)}'
            if i in ids[kind]: continue
            g=geo()
            e={'v':lambda: mock_vehicle_from_geoid(vehicle_id=i, geoid=g),'r':lambda: mock_request_from_geoids(request_id=i, origin=g, destination=geo()),'s':lambda: mock_station_from_geoid(station_id=i, geoid=g),'b':lambda: mock_base_from_geoid(base_id=i, geoid=g)}[kind]()
            res=sso.add_entity_safe(sim,e)
            sim=res.unwrap(); ids[kind].add(i)
        elif r<0.7:
            i=rnd.choice(pool+['zz']); g=geo()
            if kind=='v':
                if i in sim.vehicles: e=sim.vehicles[i].modify_position(sim.road_network.position_from_geoid(g))
                else: e=mock_vehicle_from_geoid(vehicle_id=i, geoid=g)
                res=sso.modify_vehicle_safe(sim,e)
            elif kind=='r':
                if i in sim.requests:
                    import dataclasses; e=dataclasses.replace(sim.requests[i], position=sim.road_network.position_from_geoid(g))
                else: e=mock_request_from_geoids(request_id=i, origin=g, destination=g)
                res=sso.modify_request_safe(sim,e)
            elif kind=='s':
                import dataclasses
                if i in sim.stations:
                    same=rnd.random()<0.5
                    e=dataclasses.replace(sim.stations[i], balance=rnd.random()) if same else dataclasses.replace(sim.stations[i], position=sim.road_network.position_from_geoid(g))
                    res=sso.modify_station_safe(sim,e)
                    if not same and g!=sim.stations[i].geoid and not isinstance(res,Failure): viol['station moved']+=1
                else: res=sso.modify_station_safe(sim, mock_station_from_geoid(station_id=i, geoid=g))
            else:
                import dataclasses
                if i in sim.bases:
                    e=dataclasses.replace(sim.bases[i], position=sim.road_network.position_from_geoid(g))
                    res=sso.modify_base_safe(sim,e)
                    if g!=sim.bases[i].geoid and not isinstance(res,Failure): viol['base moved']+=1
                else: res=sso.modify_base_safe(sim, mock_base_from_geoid(base_id=i, geoid=g))
            if not isinstance(res,Failure): sim=res.unwrap(); tot['mod ok']+=1
            else: tot['mod fail']+=1
        else:
            i=rnd.choice(pool+['zz'])
            res={'v':sso.remove_vehicle_safe,'r':sso.remove_request_safe,'s':sso.remove_station_safe,'b':sso.remove_base_safe}[kind](sim,i)
            if not isinstance(res,Failure): sim=res.unwrap(); ids[kind].discard(i); tot['rm ok']+=1
            else: tot['rm fail']+=1
        c=check(sim)
        if c: viol[c]+=1
print(dict(tot)); print(dict(viol))
