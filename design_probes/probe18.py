import logging, random, json, heapq
logging.disable(logging.CRITICAL)
import networkx as nx
from nrel.hive.model.roadnetwork.osm.osm_roadnetwork import OSMRoadNetwork
from nrel.hive.model.entity_position import EntityPosition
d=json.load(open('/repo/nrel/hive/resources/scenarios/denver_downtown/road_network/downtown_denver_network.json'))
rn=OSMRoadNetwork(nx.node_link_graph(d, edges='links'))
print('min speed', rn.min_speed_kmph, 'max straight', getattr(rn,'max_straight_line_speed_kmph',None))
rnd=random.Random(1); links=list(rn.link_helper.links.values()); bad=0; worst=0
adj={}
for u,v,dd in rn.graph.edges(data=True): adj.setdefault(u,{}); adj[u][v]=min(adj[u].get(v,1e18), dd['travel_time'])
def dij(s,t):
    dist={s:0}; pq=[(0,s)]
    while pq:
        du,u=heapq.heappop(pq)
        if u==t: return du
        if du>dist[u]: continue
        for v,w in adj.get(u,{}).items():
            if du+w<dist.get(v,1e18): dist[v]=du+w; heapq.heappush(pq,(du+w,v))
for _ in range(5000):
    a,b=rnd.sample(links,2)
    r=rn.route(EntityPosition(a.link_id,a.start), EntityPosition(b.link_id,b.end))
    inner=r[1:-1]
    cost=sum(adj[int(l.link_id.split('-')[0])][int(l.link_id.split('-')[1])] for l in inner)
    opt=dij(int(a.link_id.split('-')[1]), int(b.link_id.split('-')[0]))
    if cost>opt+1e-6: bad+=1; worst=max(worst,cost-opt)
print('bad',bad,'worst excess s',worst)
