# prototype of the bounded systematic driver
import sys, os, logging, collections, time, dataclasses, uuid, enum
from pathlib import Path
import immutables
logging.disable(logging.CRITICAL)
import nrel.hive.app.hive_cosim as hc
from nrel.hive.dispatcher.instruction.instructions import *
from nrel.hive.state.vehicle_state.charging_station import ChargingStation
from nrel.hive.state.vehicle_state.charging_base import ChargingBase
from nrel.hive.state.vehicle_state.charge_queueing import ChargeQueueing
from nrel.hive.state.vehicle_state.reserve_base import ReserveBase
from nrel.hive.state.vehicle_state.dispatch_trip import DispatchTrip
from nrel.hive.state.vehicle_state.servicing_trip import ServicingTrip
from nrel.hive.state.vehicle_state.dispatch_station import DispatchStation
from nrel.hive.state.vehicle_state.dispatch_base import DispatchBase
os.chdir('/root/scratch/p1/sys1'); depth=int(sys.argv[1])
pending=[]
def ctl(sim, env):
    out=tuple(pending); pending.clear(); return out
rp0 = hc.load_scenario(Path('scenario.yaml'), custom_instruction_generators=(ctl,), output_suffix='x%d'%os.getpid())
rp0 = hc.crank(rp0,2).runner_payload   # warm-up: readers exhausted, requests admitted
print('requests', list(rp0.s.requests), 'fleet_ids', rp0.e.fleet_ids)
def canon(x):
    if isinstance(x, uuid.UUID): return 'U'
    if isinstance(x, immutables.Map): return tuple(sorted((repr(canon(k)), canon(v)) for k,v in x.items()))
    if isinstance(x, frozenset): return tuple(sorted(repr(canon(i)) for i in x))
    if dataclasses.is_dataclass(x) and not isinstance(x,type): return (type(x).__name__,)+tuple(canon(getattr(x,f.name)) for f in dataclasses.fields(x) if f.name not in ('idle_duration','enqueue_time','departure_time','dispatched_vehicle_time'))
    if isinstance(x, tuple) and hasattr(x,'_fields'): return (type(x).__name__,)+tuple(canon(getattr(x,f)) for f in x._fields if f not in ('road_network','sim_time','applied_instructions'))
    if isinstance(x, tuple): return tuple(canon(i) for i in x)
    if isinstance(x, enum.Enum): return x.name
    if isinstance(x, float): return round(x,6)
    if isinstance(x,(int,str,bool,type(None))): return x
    return repr(type(x))
def grants(e, v): return len(e.membership.memberships)==0 or len(e.membership.memberships & v.membership.memberships)>0
viol=collections.Counter()
def check(s):
    use = collections.Counter(); q = collections.Counter(); stall = collections.Counter()
    for v in s.get_vehicles():
        vs=v.vehicle_state
        if isinstance(vs, ChargingStation):
            st=s.stations[vs.station_id]; use[(vs.station_id, vs.charger_id)]+=1
            if st.geoid!=v.geoid: viol['C07 chargingstation']+=1
            if not grants(st,v): viol['C10 chargingstation']+=1
        elif isinstance(vs, ChargingBase):
            b=s.bases[vs.base_id]; use[(b.station_id, vs.charger_id)]+=1; stall[b.id]+=1
            if b.geoid!=v.geoid: viol['C07 chargingbase']+=1
            if not grants(b,v): viol['C10 chargingbase']+=1
        elif isinstance(vs, ChargeQueueing):
            st=s.stations[vs.station_id]; q[(vs.station_id, vs.charger_id)]+=1
            if st.geoid!=v.geoid: viol['C07 queue']+=1
            if not grants(st,v): viol['C10 queue']+=1
        elif isinstance(vs, ReserveBase):
            b=s.bases[vs.base_id]; stall[b.id]+=1
            if b.geoid!=v.geoid: viol['C07 reserve']+=1
            if not grants(b,v): viol['C10 reserve']+=1
        elif isinstance(vs, DispatchTrip):
            rq=s.requests.get(vs.request_id)
            if rq is not None and not grants(rq,v): viol['C10 dispatchtrip']+=1
        elif isinstance(vs, ServicingTrip):
            if not grants(vs.request,v): viol['C10 servicing']+=1
        elif isinstance(vs, DispatchStation):
            if not grants(s.stations[vs.station_id],v): viol['C10 dispatchstation']+=1
        elif isinstance(vs, DispatchBase):
            if not grants(s.bases[vs.base_id],v): viol['C10 dispatchbase']+=1
    for st in s.get_stations():
        for c, cs in st.state.items():
            if not (0<=cs.available_chargers<=cs.total_chargers): viol['C02 range']+=1
            if cs.total_chargers-cs.available_chargers != use[(st.id,c)]: viol['C02 plug']+=1
            if cs.enqueued_vehicles != q[(st.id,c)]: viol['C02 queue']+=1
    for b in s.get_bases():
        if b.total_stalls-b.available_stalls != stall[b.id]: viol['C02 stall']+=1
    for r in s.get_requests():
        if r.dispatched_vehicle:
            v = s.vehicles.get(r.dispatched_vehicle)
            if not v or not isinstance(v.vehicle_state, DispatchTrip) or v.vehicle_state.request_id != r.id: viol['C17 stale']+=1
def variants(s):
    out=[None]
    for vid in s.get_vehicle_ids():
        out.append(IdleInstruction(vid)); out.append(OutOfServiceInstruction(vid))
        for rid in ('r1','r2','nope'): out.append(DispatchTripInstruction(vid,rid))
        for sid in ('s1','s2','bs1','nope'):
            for c in ('DCFC','LEVEL_2','GAS_PUMP'):
                out.append(DispatchStationInstruction(vid,sid,c)); out.append(ChargeStationInstruction(vid,sid,c))
        for bid in ('b1','b2','nope'):
            out.append(DispatchBaseInstruction(vid,bid)); out.append(ReserveBaseInstruction(vid,bid))
            for c in ('LEVEL_2','DCFC'): out.append(ChargeBaseInstruction(vid,bid,c))
        out.append(RepositionInstruction(vid, s.stations['s2'].position.link_id))
    return out
seen={canon(rp0.s)}; frontier=[rp0]; t0=time.time(); trans=0; acts=collections.Counter()
for d in range(depth):
    nxt=[]
    for rp in frontier:
        for ins in variants(rp.s):
            pending[:] = [ins] if ins else []
            rp2 = hc.crank(rp,1,flush_events=False).runner_payload
            rp2.e.reporter.reports.clear()
            trans+=1
            check(rp2.s)
            for v in rp2.s.get_vehicles(): acts[type(v.vehicle_state).__name__]+=1
            fp=canon(rp2.s)
            if fp not in seen: seen.add(fp); nxt.append(rp2)
    frontier=nxt
    print('depth',d+1,'new states',len(nxt),'total',len(seen),'transitions',trans,'%.1fs'%(time.time()-t0))
print(dict(acts)); print(dict(viol))
