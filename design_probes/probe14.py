import sys, os, logging, random, collections, shutil
from pathlib import Path
logging.disable(logging.CRITICAL)
import nrel.hive.app.hive_cosim as hc
from nrel.hive.state.vehicle_state.charge_queueing import ChargeQueueing
from nrel.hive.state.vehicle_state.charging_station import ChargingStation
from nrel.hive.dispatcher.instruction.instructions import *
from gen import gen
tot=collections.Counter(); viol=collections.Counter()
for case in range(int(sys.argv[1])):
    rnd=random.Random(3000+case)
    d=Path('/root/scratch/p1/c18'); shutil.rmtree(d, ignore_errors=True)
    dt=rnd.choice([30,60,120]); gen(d, dt=dt)
    with open(d/'vehicles.csv','w') as f:
        f.write('vehicle_id,lat,lon,mechatronics_id,initial_soc,schedule_id,home_base_id\n')
        for i in range(10):
            r=rnd.choice([0.001,0.002,0.004,0.004,0.008])
            f.write(f'v{i},{39.755+rnd.choice([-1,1])*r},{-104.985+rnd.choice([-1,1])*r},leaf_50,{rnd.uniform(0.03,0.06)},,\n')
    with open(d/'stations.csv','w') as f:
        f.write('station_id,lat,lon,charger_count,charger_id,on_shift_access\n')
        f.write(f's1,39.755,-104.985,{rnd.choice([1,2])},DCFC,true\n')
        f.write('bs1,39.75,-104.99,2,LEVEL_2,false\nhbs1,39.76,-104.99,1,LEVEL_2,false\n')
    open(d/'requests.csv','w').write('request_id,o_lat,o_lon,d_lat,d_lon,departure_time,passengers\n')
    y=(d/'scenario.yaml').read_text().replace('  charging_price_file: prices.csv\n','')
    (d/'scenario.yaml').write_text(y)
    os.chdir(d)
    def ctl(sim, env):
        out=[]
        for v in sim.get_vehicles():
            x=rnd.random()
            if isinstance(v.vehicle_state, ChargingStation) and x<0.05: out.append(IdleInstruction(v.id))
            elif isinstance(v.vehicle_state, ChargeQueueing) and x<0.02: out.append(IdleInstruction(v.id))
        return tuple(out)
    from nrel.hive.dispatcher.instruction_generator.charging_fleet_manager import ChargingFleetManager
    rp = hc.load_scenario(Path('scenario.yaml'), output_suffix='x')
    from nrel.hive.runner.runner_payload_ops import set_instruction_generators
    from nrel.hive.dispatcher.instruction_generator.instruction_function import instruction_generator_from_function
    rp = set_instruction_generators(rp, (ChargingFleetManager(rp.e.config.dispatcher), instruction_generator_from_function(ctl)))
    join={}; prev=rp.s
    for k in range(200):
        rp=hc.crank(rp,1).runner_payload; s=rp.s
        def q(st): return {v.id:(v.vehicle_state.station_id,v.vehicle_state.charger_id,v.vehicle_state.instance_id) for v in st.get_vehicles() if isinstance(v.vehicle_state, ChargeQueueing)}
        qp, qn = q(prev), q(s)
        for vid,key in qn.items():
            if join.get(vid,(None,None))[0]!=key: join[vid]=(key,k)
        for vid,key in qp.items():
            v=s.vehicles[vid]
            if isinstance(v.vehicle_state, ChargingStation) and (v.vehicle_state.station_id,v.vehicle_state.charger_id)==key[:2]:
                tot['grant']+=1
                waiting=[w for w,kk in qp.items() if w!=vid and kk[:2]==key[:2] and qn.get(w)==kk]
                if waiting: tot['grant with others waiting']+=1
                for w in waiting:
                    if join[w][1]<join[vid][1]: viol['overtake']+=1
                    elif join[w][1]==join[vid][1] and w<vid: viol['tie-break']+=1
                    if join[w][1]!=join[vid][1]: tot['distinct join waiting']+=1
        prev=s
    os.chdir('/root/scratch/p1')
print(dict(tot)); print(dict(viol))
