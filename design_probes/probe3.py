import sys, os, logging
from pathlib import Path
import nrel.hive.app.hive_cosim as hc
from nrel.hive.dispatcher.instruction.instructions import *
from nrel.hive.model.energy.energytype import EnergyType
from nrel.hive.state.simulation_state import simulation_state_ops as sso
import immutables
logging.disable(logging.CRITICAL)
os.chdir('/root/scratch/p1/s1')
script = {}
def ctl(sim, env):
    return tuple(script.pop(int(sim.sim_time), ()))
rp = hc.load_scenario(Path('scenario.yaml'), custom_instruction_generators=(ctl,), output_suffix='p3_%d'%os.getpid())
# make v1 nearly empty
v = rp.s.vehicles['v1']
v = v.modify_energy(immutables.Map({EnergyType.ELECTRIC: 0.05}))
rp = rp._replace(s=sso.modify_vehicle_safe(rp.s, v).unwrap())
# step until a request exists
while not rp.s.requests:
    rp = hc.crank(rp,1).runner_payload
rid = sorted(rp.s.requests)[0]
script[int(rp.s.sim_time)] = [DispatchTripInstruction('v1', rid)]
for i in range(4):
    rp = hc.crank(rp,1).runner_payload
    v = rp.s.vehicles['v1']; r = rp.s.requests.get(rid)
    print(i, type(v.vehicle_state).__name__, round(v.energy[EnergyType.ELECTRIC],4), 'req.dispatched_vehicle=', r.dispatched_vehicle if r else None)
