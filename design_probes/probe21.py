# C19 prototype through the real file handlers
import sys, os, logging, json, collections, re, contextlib, io
from pathlib import Path
logging.disable(logging.CRITICAL)
import nrel.hive.app.hive_cosim as hc
from nrel.hive.reporting.handler.stats_handler import StatsHandler
from nrel.hive.reporting.handler.eventful_handler import EventfulHandler
from nrel.hive.state.vehicle_state.servicing_trip import ServicingTrip
os.chdir(sys.argv[1]); n=int(sys.argv[2])
rp=hc.load_scenario(Path('scenario.yaml'), output_suffix='c19_%d'%os.getpid())
ev=[h for h in rp.e.reporter.handlers if isinstance(h, EventfulHandler)][0]
st=[h for h in rp.e.reporter.handlers if isinstance(h, StatsHandler)][0]
path=ev.log_file.name; pos=0
dt=rp.s.sim_timestep_duration_seconds; timeout=rp.e.config.sim.request_cancel_time_seconds
viol=collections.Counter(); cnt=collections.Counter()
odo=collections.Counter(); gained=collections.Counter(); adds=cancels=0
prev=rp.s
def parse_wait(w):
    m=re.fullmatch(r'(?:(-?\d+) days?, )?(\d+):(\d\d):(\d\d)', w); 
    if not m: return None
    return (int(m.group(1) or 0)*86400)+int(m.group(2))*3600+int(m.group(3))*60+int(m.group(4))
for k in range(n):
    rp=hc.crank(rp,1).runner_payload; s=rp.s
    ev.log_file.flush()
    with open(path) as f:
        f.seek(pos); chunk=f.read(); pos=f.tell()
    lines=[json.loads(l) for l in chunk.splitlines()]
    by=collections.defaultdict(list)
    for d in lines: by[d['report_type']].append(d)
    # station load vs charge events
    load={d['station_id']:float(d['energy']) for d in by['station_load_event']}
    if len(load)!=len(by['station_load_event']): viol['dup load']+=1
    chg=collections.Counter()
    for d in by['vehicle_charge_event']: chg[d['station_id']]+=float(d['energy']); gained[d['vehicle_id']]+=float(d['energy'])
    for sid in s.get_station_ids():
        if sid not in load: viol['missing load']+=1
        elif abs(load[sid]-chg.get(sid,0.0))>1e-9: viol['load mismatch']+=1
    for d in by['vehicle_move_event']: odo[d['vehicle_id']]+=float(d['distance_km'])
    adds+=len(by['add_request_event']); cancels+=len(by['cancel_request_event'])
    # one-to-one state-derived
    addev0={d['request_id'] for d in by['add_request_event']}
    removed=(set(prev.requests)|addev0)-set(s.requests)
    evs=[d['request_id'] for d in by['pickup_request_event']]+[d['request_id'] for d in by['cancel_request_event']]
    if sorted(evs)!=sorted(removed): viol['removed vs events']+=1
    added=set(s.requests)-set(prev.requests)
    # requests added and removed in same step? (added then picked up same step) -> add events superset
    addev={d['request_id'] for d in by['add_request_event']}
    if not added<=addev: viol['added w/o event']+=1
    for v in s.get_vehicles():
        p=prev.vehicles[v.id]
        dm=[d for d in by['vehicle_move_event'] if d['vehicle_id']==v.id]
        if v.distance_traveled_km>p.distance_traveled_km:
            if len(dm)!=1 or abs(float(dm[0]['distance_km'])-(v.distance_traveled_km-p.distance_traveled_km))>1e-9: viol['move event mismatch']+=1
            cnt['moves']+=1
        elif any(float(d['distance_km'])>0 for d in dm): viol['spurious move']+=1
        dc=[d for d in by['vehicle_charge_event'] if d['vehicle_id']==v.id]
        g=sum(v.energy_gained.values())-sum(p.energy_gained.values())
        if g>0:
            if len(dc)!=1 or abs(float(dc[0]['energy'])-g)>1e-9: viol['charge event mismatch']+=1
            cnt['charges']+=1
        elif dc and any(float(d['energy'])>0 for d in dc): viol['spurious charge']+=1
        # dropoff: servicing trip instance ended by arrival
        if isinstance(p.vehicle_state, ServicingTrip) and len(p.vehicle_state.route)>0 and isinstance(v.vehicle_state, ServicingTrip) and len(v.vehicle_state.route)==0:
            dd=[d for d in by['dropoff_request_event'] if d['vehicle_id']==v.id and d['request_id']==p.vehicle_state.request.id]
            if len(dd)!=1: viol['dropoff missing']+=1
            cnt['dropoffs']+=1
    for d in by['pickup_request_event']:
        w=parse_wait(d['wait_time_seconds']); cnt['pickups']+=1
        if w is None: viol['wait unparsable %s'%d['wait_time_seconds']]+=1
        elif not (0<=w<=timeout+dt): viol['wait out of range']+=1
    prev=s
for v in rp.s.get_vehicles():
    if abs(odo[v.id]-v.distance_traveled_km)>1e-6: viol['odometer sum']+=1
    if abs(gained[v.id]-sum(v.energy_gained.values()))>1e-6: viol['gained sum']+=1
if st.stats.requests!=adds or st.stats.cancelled_requests!=cancels: viol['stats counts']+=1
with contextlib.redirect_stdout(io.StringIO()): summ=rp.e.reporter.get_summary_stats(rp)
exp = 1-(cancels/adds) if adds else 0.0
if abs(summ['requests_served_percent']-exp)>1e-12: viol['served pct']+=1
print(dict(cnt), 'adds',adds,'cancels',cancels); print(dict(viol))
