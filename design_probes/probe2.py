import sys, os, logging
from pathlib import Path
import nrel.hive.app.hive_cosim as hc
from nrel.hive.dispatcher.instruction.instructions import *
from nrel.hive.model.energy.energytype import EnergyType
logging.disable(logging.CRITICAL)
os.chdir('/root/scratch/p1/s1')
script = {}
def ctl(sim, env):
    return tuple(script.pop(int(sim.sim_time), ()))
rp = hc.load_scenario(Path('scenario.yaml'), custom_instruction_generators=(ctl,), output_suffix='p2_%d'%os.getpid())
s = rp.s
print({v.id:(v.geoid, type(v.driver_state).__name__) for v in s.get_vehicles()})
print({b.id:(b.geoid,b.station_id, b.membership) for b in s.get_bases()})
# C07: ChargeBase far away
script[0] = [ChargeBaseInstruction('v1','b1','LEVEL_2')]
rp = hc.crank(rp,1).runner_payload
v=rp.s.vehicles['v1']; b=rp.s.bases['b1']
print('C07 probe: v1 state', type(v.vehicle_state).__name__, 'veh geoid', v.geoid, 'base geoid', b.geoid, 'same', v.geoid==b.geoid, 'stalls', b.available_stalls, rp.s.stations['bs1'].state['LEVEL_2'].available_chargers)
