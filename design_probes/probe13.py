import sys, os, logging, random, collections, shutil
from pathlib import Path
logging.disable(logging.CRITICAL)
import nrel.hive.app.hive_cosim as hc
from nrel.hive.reporting.handler.handler import Handler
from nrel.hive.dispatcher.instruction.instructions import DispatchTripInstruction
from nrel.hive.dispatcher.instruction_generator.dispatcher import Dispatcher
from gen import gen
class H(Handler):
    def __init__(self): self.cur=[]
    def handle(self, reports, rp): self.cur=list(reports)
    def close(self, rp): pass
tot=collections.Counter(); viol=collections.Counter()
disp_log=[]
orig=Dispatcher.generate_instructions
def wrapped(self, sim, env):
    r=orig(self, sim, env); disp_log.append((int(sim.sim_time), r[1])); return r
Dispatcher.generate_instructions=wrapped
def hms(x): return '%02d:%02d:%02d'%(x//3600, x%3600//60, x%60)
for case in range(int(sys.argv[1])):
    rnd=random.Random(2000+case)
    d=Path('/root/scratch/p1/c20'); shutil.rmtree(d, ignore_errors=True)
    dt=rnd.choice([60,97,300,900,1800,3599]); start=rnd.choice([0,3600,86399,1000,43200]); nsteps=rnd.randint(100,400)
    gen(d, dt=dt)
    sched={}
    for i in range(4):
        a=rnd.choice([0, 3600*rnd.randint(0,23), rnd.randint(0,86399), (start+dt*rnd.randint(0,50))%86400])
        b=rnd.choice([a, 0, rnd.randint(0,86399), (a+dt*rnd.randint(1,30))%86400, (start+dt*rnd.randint(0,50))%86400])
        sched[f'sch{i}']=(a,b)
    with open(d/'sched.csv','w') as f:
        f.write('schedule_id,start_time,end_time\n')
        for k,(a,b) in sched.items(): f.write(f'{k},"{hms(a)}","{hms(b)}"\n')
    with open(d/'vehicles.csv','w') as f:
        f.write('vehicle_id,lat,lon,mechatronics_id,initial_soc,schedule_id,home_base_id\n')
        for i in range(6):
            f.write(f'v{i},{39.75+rnd.uniform(-.01,.01)},{-104.99+rnd.uniform(-.01,.01)},leaf_50,0.9,sch{i%4},hb1\n')
    y=(d/'scenario.yaml').read_text().replace('start_time: 0',f'start_time: {start}').replace('end_time: 14400',f'end_time: {start+nsteps*dt}').replace('input:\n','input:\n  schedules_file: sched.csv\n')
    (d/'scenario.yaml').write_text(y)
    with open(d/'requests.csv','w') as f:
        f.write('request_id,o_lat,o_lon,d_lat,d_lon,departure_time,passengers\n')
        t=start
        for i in range(nsteps):
            t+=dt
            f.write(f'r{i},{39.75+rnd.uniform(-.01,.01)},{-104.99+rnd.uniform(-.01,.01)},{39.75+rnd.uniform(-.01,.01)},{-104.99+rnd.uniform(-.01,.01)},{t-1},1\n')
    shutil.copy('/root/scratch/p1/s1/prices.csv', d/'prices.csv')
    os.chdir(d)
    rp = hc.load_scenario(Path('scenario.yaml'), output_suffix='x')
    h=H(); rp.e.reporter.add_handler(h)
    def inshift(sid,t):
        a,b=sched[sid]; x=t%86400
        return (a<=x<b) if a<=b else (x>=a or x<b)
    avail={v.id:False for v in rp.s.get_vehicles()}
    for k in range(nsteps):
        tk=start+k*dt; disp_log.clear()
        rp=hc.crank(rp,1).runner_payload
        ev={ (r.report['vehicle_id'], r.report['schedule_event']) for r in h.cur if r.report_type.name=='DRIVER_SCHEDULE_EVENT'}
        nev=sum(1 for r in h.cur if r.report_type.name=='DRIVER_SCHEDULE_EVENT')
        if nev!=len(ev): viol['dup event']+=1
        for v in rp.s.get_vehicles():
            exp=inshift(v.driver_state.schedule_id, tk)
            tot['chk']+=1
            if v.driver_state.available!=exp: viol['avail']+=1
            flipped = exp!=avail[v.id]
            if flipped:
                tot['flip']+=1
                if (v.id, 'on' if exp else 'off') not in ev: viol['missing event']+=1
            else:
                if any(e[0]==v.id for e in ev): viol['spurious event']+=1
            avail[v.id]=v.driver_state.available
        for t,ins in disp_log:
            for i in ins:
                tot['disp']+=1
                sid=rp.s.vehicles[i.vehicle_id].driver_state.schedule_id
                if not inshift(sid,t): viol['dispatch offshift']+=1
    os.chdir('/root/scratch/p1')
print(dict(tot)); print(dict(viol))
