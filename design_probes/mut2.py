import subprocess, sys, os
sys.path.insert(0,'/root/scratch')
from mut import MUTS, RC, sh
P='/root/scratch/p1'
DET = {
 'M4_queue_sort_dropped': f'cd {P} && PYTHONPATH={RC} /venv/bin/python probe14.py 10 2>&1 | tail -1',
 'M5_dispatchstation_no_membership': f'cd {P} && PYTHONPATH={RC} /venv/bin/python probe17.py {P}/f1 1 300 0.3 2>&1 | tail -1',
 'M6_odometer_planned': f'cd {P} && PYTHONPATH={RC} /venv/bin/python probe10.py {P}/s2 120 2>&1 | tail -1',
 'M7_station_not_paid': f'cd {P} && PYTHONPATH={RC} /venv/bin/python probe10.py {P}/s2 120 2>&1 | tail -1',
 'M12_pickup_no_fare': f'cd {P} && PYTHONPATH={RC} /venv/bin/python probe10.py {P}/s2 120 2>&1 | tail -1',
 'M15_search_index_not_updated': f'cd {P} && PYTHONPATH={RC} /venv/bin/python probe16.py 2>&1 | tail -1',
 'M14_get_vehicles_unsorted': f'cd {P} && for s in 0 1 2 3; do PYTHONHASHSEED=$s PYTHONPATH={RC} /venv/bin/python run1.py {P}/s2 mm$s 240 2>&1 | grep -E "^239 "; done | sort | uniq -c',
}
for name,cmd in DET.items():
    f,a,b = MUTS[name]; p=os.path.join(RC,f); s=open(p).read(); assert s.count(a)==1
    open(p,'w').write(s.replace(a,b))
    r=sh(cmd); print(name,'=>',r.stdout.strip()[:300])
    sh('cd %s && git checkout -q -- .'%RC)
