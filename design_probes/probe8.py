import logging, random, json
logging.disable(logging.CRITICAL)
import networkx as nx, h3
from nrel.hive.model.roadnetwork.osm.osm_roadnetwork import OSMRoadNetwork
from nrel.hive.model.entity_position import EntityPosition
from probe5 import grid
rnd = random.Random(5)
def check(rn, n):
    links = list(rn.link_helper.links.values())
    bad = {}
    for _ in range(n):
        def pos():
            l = rnd.choice(links); line = h3.h3_line(l.start,l.end); return EntityPosition(l.link_id, rnd.choice(line) if rnd.random()<0.7 else rnd.choice([l.start,l.end]))
        o = pos(); d = pos() if rnd.random()<0.8 else EntityPosition(o.link_id, rnd.choice(h3.h3_line(rn.link_helper.links[o.link_id].start, rn.link_helper.links[o.link_id].end)))
        r = rn.route(o,d)
        if not r:
            if o!=d: bad.setdefault('empty',[]).append((o,d))
            continue
        if r[0].start!=o.geoid: bad.setdefault('start',[]).append((o,d))
        if r[-1].end!=d.geoid: bad.setdefault('end',[]).append((o,d))
        for a,b in zip(r,r[1:]):
            if a.end!=b.start: bad.setdefault('join',[]).append((o,d,a,b)); break
        for l in r:
            if rn.link_from_link_id(l.link_id) is None: bad.setdefault('nolink',[]).append(l)
    # snapping
    for _ in range(n):
        l = rnd.choice(links); la,lo = h3.h3_to_geo(rnd.choice([l.start,l.end]))
        g = h3.geo_to_h3(la+rnd.uniform(-1e-3,1e-3), lo+rnd.uniform(-1e-3,1e-3), 15)
        p = rn.position_from_geoid(g)
        L = rn.link_from_link_id(p.link_id)
        if p.geoid not in h3.h3_line(L.start,L.end): bad.setdefault('snap',[]).append(g)
    return {k:len(v) for k,v in bad.items()}, {k:v[0] for k,v in bad.items()}
print(check(OSMRoadNetwork(grid(6, rnd)), 2000))
d=json.load(open('/repo/nrel/hive/resources/scenarios/denver_downtown/road_network/downtown_denver_network.json'))
print(check(OSMRoadNetwork(nx.node_link_graph(d, edges='links')), 2000))
