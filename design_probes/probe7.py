import sys, os, logging, hashlib
from pathlib import Path
import nrel.hive.app.hive_cosim as hc
from nrel.hive.runner.local_simulation_runner import LocalSimulationRunner
from nrel.hive.reporting.handler.handler import Handler
logging.disable(logging.CRITICAL)
os.chdir(sys.argv[1])
def fp(s):
    out=[int(s.sim_time)]
    for v in s.get_vehicles():
        vs = v.vehicle_state
        d = {k:(str(val) if k!='instance_id' else None) for k,val in vs.__dict__.items()}
        out.append((v.id, v.position, sorted((k.name,x) for k,x in v.energy.items()), v.balance, v.distance_traveled_km, type(vs).__name__, sorted(d.items()), type(v.driver_state).__name__))
    for st in s.get_stations():
        out.append((st.id, st.balance, sorted((k,tuple(c)[2:]) for k,c in st.state.items())))
    for b in s.get_bases(): out.append((b.id,b.available_stalls))
    for r in s.get_requests(): out.append((r.id,r.dispatched_vehicle))
    return hashlib.sha256(repr(out).encode()).hexdigest()[:12]
class H(Handler):
    def __init__(self): self.steps=[]
    def handle(self, reports, rp):
        self.steps.append((int(rp.s.sim_time), sorted((r.report_type.name, tuple(sorted((k,str(v)) for k,v in r.report.items() if k not in ('session_id',)))) for r in reports)))
    def close(self, rp): pass
def fresh(tag):
    rp = hc.load_scenario(Path('scenario.yaml'), output_suffix=tag+str(os.getpid()))
    h=H(); rp.e.reporter.add_handler(h); return rp,h
N=240
rp,h1 = fresh('a'); 
for i in range(N): rp = hc.crank(rp,1).runner_payload
f1 = fp(rp.s)
rp,h2 = fresh('b'); rp = hc.crank(rp,100).runner_payload; rp=hc.crank(rp,N-100).runner_payload; f2=fp(rp.s)
rp,h3 = fresh('c'); rp = LocalSimulationRunner.run(rp); f3=fp(rp.s)
print(f1,f2,f3, len(h1.steps),len(h2.steps),len(h3.steps), h1.steps==h2.steps, h1.steps==h3.steps, int(rp.s.sim_time))
print(LocalSimulationRunner.step(rp))
