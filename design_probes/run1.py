import sys, os, json, hashlib, logging
from pathlib import Path
import nrel.hive.app.hive_cosim as hc
from nrel.hive.model.energy.energytype import EnergyType
logging.disable(logging.CRITICAL)
os.chdir(sys.argv[1])
rp = hc.load_scenario(Path('scenario.yaml'), output_suffix=sys.argv[2])
n = int(sys.argv[3]) if len(sys.argv)>3 else 240
h = hashlib.sha256()
def fp(s):
    out=[]
    for v in s.get_vehicles():
        vs = v.vehicle_state
        d = {k:(str(val) if k!='instance_id' else None) for k,val in vs.__dict__.items()}
        out.append((v.id, v.position, sorted((k.name,x) for k,x in v.energy.items()), v.balance, v.distance_traveled_km, type(vs).__name__, sorted(d.items()), type(v.driver_state).__name__))
    for st in s.get_stations():
        out.append((st.id, st.balance, sorted((k,tuple(c)[2:]) for k,c in st.state.items())))
    for b in s.get_bases():
        out.append((b.id,b.available_stalls))
    for r in s.get_requests():
        out.append((r.id,r.dispatched_vehicle))
    return repr(out)
for i in range(n):
    rp = hc.crank(rp,1).runner_payload
    h.update(fp(rp.s).encode())
    if i%60==59: print(i, h.hexdigest()[:16])
stats = rp.e.reporter.get_summary_stats(rp)
print(json.dumps(stats, sort_keys=True)[:600])
for v in rp.s.get_vehicles():
    print(v.id, type(v.vehicle_state).__name__, dict((k.name,round(x,3)) for k,x in v.energy.items()), dict((k.name,round(x,3)) for k,x in v.energy_expended.items()),dict((k.name,round(x,3)) for k,x in v.energy_gained.items()), round(v.distance_traveled_km,2), round(v.balance,2))
hc.close(rp)
