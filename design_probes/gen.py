import os, sys, json, random
from pathlib import Path
def gen(d: Path, fleets=False, price=True, dt=60):
    d.mkdir(parents=True, exist_ok=True)
    (d/'.hive.yaml').write_text("""output_base_directory: "%s"
log_run: False
log_states: False
log_events: True
log_kepler: False
log_instructions: True
log_stats: True
log_station_capacities: False
log_time_step_stats: False
log_fleet_time_step_stats: False
log_level: ERROR
verbose: False
""" % str(d/'out'))
    (d/'out').mkdir(exist_ok=True)
    rnd = random.Random(1)
    lat0, lon0 = 39.75, -104.99
    def pt():
        return lat0 + rnd.uniform(-0.02,0.02), lon0 + rnd.uniform(-0.02,0.02)
    with open(d/'vehicles.csv','w') as f:
        f.write('vehicle_id,lat,lon,mechatronics_id,initial_soc,schedule_id,home_base_id\n')
        for i in range(8):
            la,lo = pt()
            mech = 'toyota_corolla' if i%4==3 else 'leaf_50'
            if i==0:
                f.write(f'v{i},{la},{lo},{mech},0.3,first,hb1\n')
            else:
                f.write(f'v{i},{la},{lo},{mech},{rnd.choice([0.15,0.3,0.9])},,\n')
    with open(d/'bases.csv','w') as f:
        f.write('base_id,lat,lon,station_id,stall_count\n')
        f.write(f'b1,{lat0},{lon0},bs1,3\n')
        f.write(f'hb1,{lat0+0.01},{lon0},hbs1,1\n')
    with open(d/'stations.csv','w') as f:
        f.write('station_id,lat,lon,charger_count,charger_id,on_shift_access\n')
        f.write(f's1,{lat0+0.005},{lon0+0.005},1,DCFC,true\n')
        f.write(f's1,{lat0+0.005},{lon0+0.005},1,LEVEL_2,true\n')
        f.write(f's1,{lat0+0.005},{lon0+0.005},1,GAS_PUMP,true\n')
        f.write(f's2,{lat0-0.005},{lon0-0.005},1,DCFC,true\n')
        f.write(f'bs1,{lat0},{lon0},2,LEVEL_2,false\n')
        f.write(f'hbs1,{lat0+0.01},{lon0},1,LEVEL_2,false\n')
    with open(d/'requests.csv','w') as f:
        f.write('request_id,o_lat,o_lon,d_lat,d_lon,departure_time,passengers\n')
        t=0
        for i in range(200):
            t += rnd.choice([0,0,7,30,60,95])
            o=pt(); dd=pt()
            f.write(f'r{i},{o[0]},{o[1]},{dd[0]},{dd[1]},{t},1\n')
    if price:
        with open(d/'prices.csv','w') as f:
            f.write('time,station_id,charger_id,price_kwh\n')
            f.write('0,s1,DCFC,0.3\n0,s2,DCFC,0.25\n0,bs1,LEVEL_2,0.1\n0,hbs1,LEVEL_2,0.1\n0,s1,LEVEL_2,0.05\n0,s1,GAS_PUMP,3.0\n')
            f.write('3600,s1,DCFC,0.5\n')
    (d/'rate.csv').write_text('base_price,price_per_mile,minimum_price\n2.2,1.6,5\n')
    y = f"""sim:
  sim_name: probe
  timestep_duration_seconds: {dt}
  request_cancel_time_seconds: 600
  start_time: 0
  end_time: 14400
network:
  network_type: euclidean
input:
  vehicles_file: vehicles.csv
  requests_file: requests.csv
  bases_file: bases.csv
  stations_file: stations.csv
  rate_structure_file: rate.csv
  {"charging_price_file: prices.csv" if price else ""}
dispatcher:
  valid_dispatch_states:
    - Idle
    - Repositioning
"""
    (d/'scenario.yaml').write_text(y)
    return d/'scenario.yaml'
if __name__=='__main__':
    print(gen(Path(sys.argv[1])))
