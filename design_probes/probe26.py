import logging, random, collections
logging.disable(logging.CRITICAL)
from nrel.hive.resources.mock_lobster import *
rnd=random.Random(5); viol=collections.Counter(); cnt=collections.Counter()
bev=mock_bev(); ice=mock_ice()
chargers=[mock_l1_charger(), mock_l2_charger(), mock_dcfc_charger(), mock_gasoline_pump()]
for _ in range(20000):
    m=rnd.choice([bev,ice]); et=EnergyType.ELECTRIC if m is bev else EnergyType.GASOLINE
    cap=m.battery_capacity_kwh if m is bev else m.tank_capacity_gallons
    soc=rnd.choice([0.0,1e-6,0.01,rnd.random(),0.99,0.999,1.0])
    v=mock_vehicle(soc=soc, mechatronics=m)
    op=rnd.choice(['add','idle','move'])
    dt=rnd.choice([1,7,30,59,60,61,90,120,300,900])
    if op=='add':
        c=rnd.choice(chargers)
        v2,t=m.add_energy(v,c,dt); d=v2.energy[et]-v.energy[et]; cnt['add']+=1
        lim = (c.rate*dt/3600 if c.energy_type==EnergyType.ELECTRIC else c.rate*dt) if m.valid_charger(c) else 0.0
        if d< -1e-12: viol['charge lowers']+=1
        if d>lim+1e-9: viol['over deliver %s dt=%d'%(c.id,dt)]+=1
        if v2.energy[et]>cap+1e-9: viol['over capacity']+=1
        if abs((v2.energy_gained[et]-v.energy_gained[et])-d)>1e-9: viol['gained booking']+=1
    elif op=='idle':
        v2=m.idle(v,dt); d=v.energy[et]-v2.energy[et]; cnt['idle']+=1
        if v2.energy[et]<0: viol['negative']+=1
        if v.energy[et]>0 and not d>0: viol['idle free %s'%type(m).__name__]+=1
        if abs((v2.energy_expended[et]-v.energy_expended[et])-d)>1e-9: viol['expended booking']+=1
    else:
        speed=rnd.choice([1,5,25,40,65,100,130]); dist=rnd.choice([0.003,0.1,1,5])
        src=somewhere(); dst=somewhere_else()
        from nrel.hive.model.roadnetwork.linktraversal import LinkTraversal
        r=tuple(LinkTraversal('a-b',src,dst,dist,speed) for _ in range(rnd.randint(1,4)))
        v2=m.consume_energy(v,r); d=v.energy[et]-v2.energy[et]; cnt['move']+=1
        if v2.energy[et]<0: viol['negative']+=1
        if v.energy[et]>0 and not d>0: viol['move free %s speed=%s'%(type(m).__name__,speed)]+=1
        if abs((v2.energy_expended[et]-v.energy_expended[et])-d)>1e-9: viol['expended booking']+=1
print(dict(cnt)); print(dict(viol))
