# C16 prototype: retained-state fingerprints + step-twice
import sys, os, logging, time, dataclasses, uuid, enum, hashlib
from pathlib import Path
import immutables, numpy as np
logging.disable(logging.CRITICAL)
import nrel.hive.app.hive_cosim as hc
def canon(x, keep_ids=True):
    if isinstance(x, uuid.UUID): return str(x) if keep_ids else 'U'
    if isinstance(x, immutables.Map): return ('M',)+tuple(sorted((repr(canon(k,keep_ids)), canon(v,keep_ids)) for k,v in x.items()))
    if isinstance(x, frozenset): return ('F',)+tuple(sorted(repr(canon(i,keep_ids)) for i in x))
    if dataclasses.is_dataclass(x) and not isinstance(x,type): return (type(x).__name__,)+tuple(canon(getattr(x,f.name),keep_ids) for f in dataclasses.fields(x))
    if isinstance(x, tuple) and hasattr(x,'_fields'): return (type(x).__name__,)+tuple(canon(getattr(x,f),keep_ids) for f in x._fields if f!='road_network')
    if isinstance(x, (tuple,list)): return (type(x).__name__,)+tuple(canon(i,keep_ids) for i in x)
    if isinstance(x, dict): return ('D',)+tuple(sorted((repr(canon(k,keep_ids)), canon(v,keep_ids)) for k,v in x.items()))
    if isinstance(x, enum.Enum): return x.name
    if isinstance(x,(int,float,str,bool,type(None))): return x
    return repr(type(x))
def fp(s, keep_ids=True): return hashlib.sha256(repr(canon(s,keep_ids)).encode()).hexdigest()
os.chdir(sys.argv[1]); n=int(sys.argv[2])
rp=hc.load_scenario(Path('scenario.yaml'), output_suffix='c16_%d'%os.getpid())
kept=[]; t_fp=0; twice_bad=0; twice=0
for k in range(n):
    rp=hc.crank(rp,1).runner_payload
    t=time.time(); kept.append((rp.s, fp(rp.s))); t_fp+=time.time()-t
    if k%10==0:
        saved=list(rp.e.reporter.reports)
        a,_=rp.u.step_update.update(rp.s, rp.e); b,_=rp.u.step_update.update(rp.s, rp.e)
        rp.e.reporter.reports[:]=saved
        twice+=1
        if fp(a,False)!=fp(b,False): twice_bad+=1
t=time.time(); changed=sum(1 for s,f in kept if fp(s)!=f); t2=time.time()-t
print('states',len(kept),'fp time/step %.1f ms'%(1000*t_fp/n),'recheck %.1fs'%t2,'changed',changed,'step-twice',twice,'mismatch',twice_bad)
