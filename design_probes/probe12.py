import sys, os, logging
from pathlib import Path
import h3
import nrel.hive.app.hive_cosim as hc
from nrel.hive.dispatcher.instruction.instructions import *
logging.disable(logging.CRITICAL)
os.chdir('/root/scratch/p1/s1')
script = {}
def ctl(sim, env): return tuple(script.pop(int(sim.sim_time), ()))
rp = hc.load_scenario(Path('scenario.yaml'), custom_instruction_generators=(ctl,), output_suffix='p12_%d'%os.getpid())
script[0]=[ReserveBaseInstruction('v1','b1'), IdleInstruction('v2')]
rp = hc.crank(rp,1).runner_payload
print('D13 applied_instructions:', dict(rp.s.applied_instructions), '| v1 state', type(rp.s.vehicles['v1'].vehicle_state).__name__)
# D5: fine region pricing
from nrel.hive.state.simulation_state.update.charging_price_update import _map_to_station_ids
import immutables
s1=rp.s.stations['s1']; s2=rp.s.stations['s2']
print('search cells', h3.h3_to_parent(s1.geoid,7), h3.h3_to_parent(s2.geoid,7))
fine = h3.h3_to_parent(s1.geoid, 10)
upd = immutables.Map({fine: immutables.Map({'DCFC': 9.99})})
m = _map_to_station_ids(upd, rp.s)
print('D5 region', fine, 'contains s1 only?', {sid:(h3.h3_to_parent(rp.s.stations[sid].geoid,10)==fine) for sid in m.keys()})
