import sys, os, logging
from pathlib import Path
import nrel.hive.app.hive_cosim as hc
logging.disable(logging.CRITICAL)
os.chdir('/root/scratch/p1/t1')
rp = hc.load_scenario(Path('scenario.yaml'), output_suffix='t%d'%os.getpid())
rp=hc.crank(rp,2).runner_payload
print('PRICE', rp.s.stations['s1'].state['DCFC'].price_per_kwh)
